#!/bin/bash
# usage: tools/confirm_mutant.sh <src dir with patch.diff demo.rs NOTES.md> <seed id> <property> [cargo feature flags for the demo]
# Confirms in a scratch worktree of /repo (outside /repo and /verif) that the change (1) compiles and passes
# the existing suite, (2) makes the demo fail, (3) the demo passes without it; then stores it under seeded/<id>/.
set -u
src="$1"; id="$2"; prop="$3"; feat="${4:-}"
wt=/tmp/confirm-wt-$id
git -C /repo worktree remove --force "$wt" >/dev/null 2>&1; rm -rf "$wt"
git -C /repo worktree add -q --detach "$wt" HEAD || exit 2
export CARGO_TARGET_DIR=${CONFIRM_TARGET:-/tmp/confirm-target}   # removed by the caller at the end
cd "$wt"
cp "$src/demo.rs" tests/zz_demo.rs
base=$(cargo test --offline $feat --test zz_demo 2>&1 | tail -5 | grep -c "test result: ok")
git apply "$src/patch.diff" || { echo "$id: patch does not apply"; exit 2; }
mut=$(cargo test --offline $feat --test zz_demo 2>&1 | grep -c "test result: FAILED\|error\[")
rm tests/zz_demo.rs
suite=$(cargo nextest run --workspace --no-fail-fast --tool-config-file pb:/w/lib/nextest.toml --profile pb --test-threads 8 --offline 2>&1 | grep "Summary" | sed 's/.*Summary//')
doc=$(cargo test --doc --offline 2>&1 | grep "test result" | tail -1)
cd /verif
git -C /repo worktree remove --force "$wt"
echo "$id: demo-without-change-ok=$base demo-with-change-fails=$mut suite:[$suite] doc:[$doc]"
case "$suite" in *"276 passed"*) ;; *) echo "$id: REJECTED (suite)"; exit 1;; esac
case "$doc" in *"0 failed"*) ;; *) echo "$id: REJECTED (doc tests)"; exit 1;; esac
[ "$base" -ge 1 ] && [ "$mut" -ge 1 ] || { echo "$id: REJECTED (demo)"; exit 1; }
mkdir -p seeded/$id && cp "$src/patch.diff" "$src/demo.rs" seeded/$id/ && cp "$src/NOTES.md" seeded/$id/NOTES.md
python3 - "$id" "$prop" "$suite" "$doc" "$feat" <<'PY'
import json,sys,re
i,prop,suite,doc,feat=sys.argv[1:6]
notes=open(f'/verif/seeded/{i}/NOTES.md').read()
json.dump({"property":prop,"kind":"independent sub-agent change (given only the property text and a scratch worktree)",
 "needs":notes[:1500],
 "ran":f"scratch worktree of /repo HEAD: cargo nextest (pb profile) -> {suite.strip()}; cargo test --doc -> {doc.strip()}; demo.rs as tests/zz_demo.rs {feat}: fails with the change, passes without",
 "expect_detected_by":[prop]},open(f'/verif/seeded/{i}/meta.json','w'),indent=1)
PY
echo "$id: KEPT"
