#!/usr/bin/env python3
"""Regenerates /verif/MANIFEST.json from the table below (kept valid at all times)."""
import json, os, subprocess
HERE = os.path.dirname(os.path.dirname(os.path.abspath(__file__)))
props = [json.loads(l) for l in open(os.path.join(HERE, 'properties.jsonl'))]

# id -> (technique, level text, level note, design ref)
CHECKS = {
 'C01': ("exhaustive state-space sweep of all 191,491,529 dates (succ_opt chain) in lock-step with a reference calendar; exhaustive accept/reject classification of constructor argument tuples",
         "Every representable date is visited as a state of the successor chain and all accessors / the four constructors are compared with an independent calendar (counter + closed forms); every small argument tuple of every year and every i32 day number is classified. The quantified domain 'all dates' is enumerated completely, which a unit test cannot do.",
         "Trusted: the reference calendar (two independent derivations cross-checked on every day). u32 arguments beyond 0..=64 are represented by an alias lattice (2^k, 2^k+v, u32::MAX).",
         "DESIGN.md §4 C01"),
 'C02': ("exhaustive sweep of all representable days (and all 86,400 seconds of boundary dates) plus the complete product of unit/boundary lattices, each timestamp constructor executed in lock-step with an i128 reference instant",
         "from_timestamp is run on every representable day (several seconds of day and nanosecond fields each), every second of the day on boundary dates, and the full product of the seconds lattice (range ends, i64-nanosecond window ends, integer lattice, day-number alias classes) with sub-unit remainders for ms/us/ns; accept/refuse and every field/read-back accessor are compared with the reference; Utc.timestamp_* and SystemTime conversions are compared too.",
         "Trusted: RefCal closed forms (cross-checked in C01). Counts between lattice points rely on euclidean division being uniform between the carries the lattice brackets.",
         "DESIGN.md §4 C02"),
 'C03': ("history exploration to depth 2 over boundary seeds x the duration alphabet (checked and operator forms, distance back after every step), exhaustive sweep of all dates x fixed day steps, iterators driven to exhaustion at both range ends, all against i128 instants",
         "Every (seed, duration) pair of the complete boundary product is executed on NaiveDateTime, DateTime<FixedOffset> (several offsets) and NaiveDate, and from the instants reached again (depth 2); after each step b+(a-b)=a, the exact distance and the order are checked; all 191,491,529 dates are stepped by fixed day counts; day/week iterators are checked item by item with their size_hint until they end at the range limits.",
         "Trusted: i128 instant arithmetic on RefCal day numbers. Durations between alphabet members rely on uniformity between bracketed carries.",
         "DESIGN.md §4 C03"),
 'C04': ("complete product of boundary UTC date-times x offsets (every whole-minute offset on boundary dates and every second of (-24h,24h) at both range ends in the thorough tier), each state followed by one step of every replacement / stepping operation, judged against a wall-clock reference (utc + offset on RefCal)",
         "For every explored (instant, offset) state both constructions and readings, conversions, ==/cmp/Hash against the same instant in other zones, all accessors and a formatted wall clock (including the one-day headroom) are compared with the reference; then one step of each with_*, with_time, +-Days, +-Months is taken and the result must be exactly the instant the wall-clock rule gives, None when the tuple does not exist or the instant leaves the range, and never a value outside the range.",
         "Trusted: RefCal and the wall = utc + offset rule. A non-zero step whose target wall-clock date lies in the one-day headroom may answer either way (value still checked).",
         "DESIGN.md §4 C04"),
 'C05': ("exhaustive enumeration of all bounded zone models (<= 3 transitions over a type palette and spacing set, every TZif version/layout, footer variants), a POSIX-rule grid (all pairs of rule days x offsets x times incl. negative DST and both hemispheres) and every file of the system zoneinfo database, each probed at every second around every transition in both directions; wall-clock answers decided by brute-force inversion of the reference offset function",
         "Each zone is written by an independent TZif/POSIX writer (or decoded by an independent reader for system files), loaded through the guarded accessor and through the real Local (TZ=... on a fresh thread), and queried at a dense instant set; the wall-clock oracle has no gap/fold case analysis of its own: it is the set {w - o : offset_at(w - o) = o}, compared as None / Single / Ambiguous(earliest, latest).",
         "Trusted: RefTz/RefTzif/RefPosix (writer-reader identity asserted on every generated file; New_York rule self-test). Hook: chrono::offset::verif::VerifZone. Exempt: the boundary second T + offset_before; rules whose start/end order differs between years.",
         "DESIGN.md §4 C05"),
 'C06': ("complete product of duration boundary lattices under every constructor/operation, then closure to depth 2 over the operations, every value compared with an exact i128 nanosecond model",
         "All pairs of a ~270-value lattice x {checked_add, checked_sub, +, -, cmp, Sum} and x every i32-lattice multiplier/divisor; every returned value is observed through all accessors, neg, abs, to_std and Display (parsed back by an independent reader); the values reached are used again as operands (depth 2), so non-lattice values are explored too. The range invariant is asserted on every value ever returned.",
         "Trusted: i128 arithmetic. Float accessors are not judged.",
         "DESIGN.md §4 C06"),
 'C07': ("exhaustive sweep of all 86,400 seconds of the day x fraction classes (plain and leap) x the duration alphabet, with second steps from the results (depth 2), plus the complete constructor cube, all against an extended-time-line reference model of the documented leap-second rules",
         "Every second of the day is a state; from each, with 11 (thorough: 60+) nanosecond fields incl. leap representations, every duration of the alphabet is added and subtracted (overflowing_*, operators) and compared with the reference (time and day carry); short steps are followed by a second step (leave the leap second and return); all replacement arguments and offsets are applied; differences over all pairs of a time lattice and every second against it, antisymmetry; NaiveDateTime with leap operands carries into the date.",
         "Trusted: RefLeapTime, whose reading of the documentation is pinned by the 23 literal examples of the NaiveTime docs asserted at start-up.",
         "DESIGN.md §4 C07"),
 'C08': ("state-space sweep of dates (thorough: all 191,491,529; quick: ~2.8 million covering two full 400-year cycles, both range ends and every 97th year) x month steps x replacement arguments x week starts, and complete products for n-th weekday / with_year / years_since, against RefCal",
         "Each swept date is stepped by the month counts both ways, every with_* is applied with the in-domain argument ranges plus alias arguments, the 7 week starts are queried; from_weekday_of_month_opt is enumerated for all months 0..=13 x 7 weekdays x all 256 n per alphabet year; years_since on all pairs of boundary dates.",
         "Trusted: RefCal. u32 arguments beyond the in-domain ranges are represented by alias classes.",
         "DESIGN.md §4 C08"),
 'C09': ("state-space sweep of dates (thorough: every representable date) and of all 86,400 seconds x printing classes, plus the complete product of boundary wall clocks x all 2,879 whole-minute offsets, each value printed (Display, Debug) and parsed back; printed text checked against the statement's form rules",
         "Round trip parse(print(v)) = v is executed for every enumerated value of every type the statement names; the statement's form rules (sign exactly outside 0..=9999, fewest of 0/3/6/9 fraction digits, :60) are checked on the text by an independent scanner. NaiveDateTime's Display form is reported as a known finding.",
         "Trusted: the form scanner and RefCal. The one-day headroom wall clocks are outside the quantified product.",
         "DESIGN.md §4 C09"),
 'C10': ("fault/edit enumeration: ALL strings within 2 edits of 6 valid templates over a 19-symbol trigger alphabet, all short strings, complete field sweeps (every 2-digit value of every field, all 10^4 offsets x 3 signs), decided against a reference RFC 3339 reader; output: complete product of boundary wall clocks x all whole-minute offsets x 5 precisions x use_z against a reference writer",
         "Exact acceptance is decided string by string: the real parser must return Ok exactly when the reference reader (written from the grammar in the statement) accepts, with exactly the denoted instant and offset; every rendering must equal the reference rendering, match the grammar and reparse to the same value at the printed precision.",
         "Trusted: the reference reader/writer (self-tested on RFC 3339's own examples). Strings further than 2 edits from a template and longer than the short-string bound are not enumerated.",
         "DESIGN.md §4 C10"),
 'C11': ("exhaustive sweep of every date of years 0..=9999 for the output side and the complete Cartesian product of the RFC 2822 grammar's options (weekday, digit counts, letter case, year forms, seconds, all zone names and military letters, comments, white-space runs) for the input side, each generated string parsed by the real parser and compared with the value the generator denotes",
         "All 3,652,425 dates are rendered (with a leap second among the times) and must have the stated form, the right weekday and reparse to the same second and offset; the input product enumerates every combination of the obsolete and current syntax options on base dates chosen so that 2-, 3-, 4- and 5-digit year forms are all expressible; a contradicting weekday must be rejected.",
         "Trusted: the generator (string and denoted value are built together from RefCal fields). Strings outside the generator are left to C15.",
         "DESIGN.md §4 C11"),
 'C12': ("complete product of every documented specifier x padding modifier x every day of the year alphabet (thorough: every representable date) x boundary times x every second of offset, rendered by the real formatter and compared cell by cell with a reference renderer transcribed from the documentation table; enumeration of unknown specifiers / misplaced modifiers / missing fields that must fail; all 3-item concatenations",
         "Each specifier cell is rendered for every enumerated value and compared with RefFmt (whose 50 example cells from the documentation are asserted at start-up); week numbering, ISO year, signed and 5-6 digit years, leap seconds and offsets with seconds are all inside the enumerated product; formatting must fail (not print something else) for everything outside the table.",
         "Trusted: RefFmt (transcription of the documented table). Cells the documentation leaves open are compared as 'same sign and digits, any padding' and listed in the evidence.",
         "DESIGN.md §4 C12"),
 'C13': ("complete product of a generated family of unambiguous format strings (31 date forms x 21 time forms x separators x offset forms, plus %c/%+/%s forms; every specifier the reader can invert and every padding modifier occurs) x boundary values within the range each form can express x the granted text perturbations (letter case of names, surplus white space); parse(format(v)) compared with v at the printed precision",
         "Every member of the family is formatted and parsed back on every boundary date (signed and 5-6 digit years included), every boundary time (leap seconds included) and, for combined forms, on the small date set x times x whole-minute offsets; the formatted text is additionally perturbed in every way the statement grants.",
         "Trusted: the per-form value ranges written next to each form (two-digit years 1970..=2069, %C%y 0..=9999, no leap second through %s).",
         "DESIGN.md §4 C13"),
 'C14': ("subset-exhaustive exploration: for every base value ALL 2^21 subsets of the 21 parsed fields are supplied and resolved through every resolution method; bounded deviations (1 and 2 contradicting fields) on small subsets and co-singletons; setter histories of length 2 over all value pairs; soundness recomputed by a reference field derivation",
         "Soundness (a successful result agrees with every supplied field) is checked on every one of the enumerated resolutions; completeness and the error classification are checked on all deviation-0 subsets under the statement's preconditions; deviations are explored smallest first (0, 1, 2).",
         "Trusted: RefFields (derivation of all 21 fields from a RefCal date/time). Which of Impossible/OutOfRange is reported is not judged.",
         "DESIGN.md §4 C14"),
 'C16': ("fault / edit enumeration on the real readers: every truncation, every header-count / version / magic / index / time / footer mutation of ~50 base files, every 1-edit (thorough: 2-edit) mutant of valid TZ strings, decided against an independent structural TZif reader and POSIX-rule reader; writer-driven acceptance of all bounded zone models, the whole system database and a TZ-string grid with structural comparison of the parsed zone; every accepted zone queried at extremes; allocation monitor",
         "Accept side: the parsed zone's derived Debug rendering must equal the model for every generated file / string and every system file. Reject side: a mutant must be rejected exactly when the reference reader rejects it for a reason the statement names; nothing may panic; every accepted (mutated) zone must answer offset queries at i64 and range extremes and around its transitions without panicking; a counting global allocator bounds the largest request by the input size.",
         "Trusted: RefTzif reader/writer and RefPosix reader/writer (identity asserted on all generated data). Hook: VerifZone (from_tzif / from_tz / debug).",
         "DESIGN.md §4 C16"),
 'C17': ("complete small scope (every stamp x every span 1..=40 ns x 3 operations), complete product of boundary stamps x span alphabet x offsets with a second application (idempotence), and all 65,536 digit counts x nanosecond lattice, against i128 floor arithmetic",
         "All sign/tie/multiple combinations occur in the exhaustively enumerated small scope; boundary products cover the 64-bit nanosecond window ends, both date range ends, spans around i64::MAX, zero/negative/inexpressible spans and the wall-clock basis for offsets; each successful result is re-rounded (depth 2) to show idempotence.",
         "Trusted: i128 floor arithmetic; RefLeapTime for leap-second operands of the sub-second operations. The RoundingError variant is not judged.",
         "DESIGN.md §4 C17"),
 'C18': ("exhaustive history exploration (stateless, every history executed from scratch): all event sequences up to length 5 (quick) / 6 (thorough) over a 15-event menu {10 TZ settings, 2 clock steps, conversion on thread A / B / a fresh thread} run against the real Local with the guarded mock clock, split over 16 child processes because TZ is process-global; oracle = reference set of zones allowed by the statement's one-second window; plus a hook-free replay of a stride of histories with real sleeps",
         "Every sequence of environment changes, waits (< 1 s and >= 1 s) and conversions within the length bound is executed on fresh threads of a dedicated process; each conversion observes a 4-probe zone signature that must be exactly one zone's, and that zone must be one the statement allows at that moment; a decoy file with a zoneinfo-relative name in the working directory exposes wrong path resolution.",
         "Hook: set_mock_now + one shadow line in Cache::offset (otherwise a '>= 1 s' step costs a real second). Trusted: RefTzif/RefPosix for the zone signatures. The sandbox's system zone is Etc/UTC.",
         "DESIGN.md §4 C18"),
 'C19': ("exhaustive enumeration of the whole quantified domain: 7 weekdays, 12 months, 128 sets x 7 days, 128^2 set pairs, and every next/next_back history of the set iterator from all 896 initial states against a reference deque; conversions on integer lattices with alias classes; text parsing on all case variants, 1-edit mutants and short strings",
         "Everything the statement quantifies over is finite and is enumerated completely (exhaustive: true), except the integer and string arguments of the conversions, which are covered by lattices/alias classes and by all strings up to a length bound plus all 1-edit mutants of every name.",
         "Trusted: a [bool;7]/bitmask reference set and name tables written from the statement.",
         "DESIGN.md §4 C19"),
 'C20': ("complete product of value lattices x two data formats (serde_json, bincode) for every serializable type, and for each of the 16 ts_* modules the complete product of the value lattice (write exact, read back) and of the signed/unsigned integer lattices incl. unit carries and range ends (read: Ok iff representable, never a panic), against i128 instants",
         "Round trips are executed for every lattice value of every type through a self-describing and a positional format; every ts_* module is driven through #[serde(with)] wrappers with every lattice integer on the signed path, the unsigned path (up to u64::MAX) and as a positional i64; the option variants with Some/None.",
         "Trusted: i128 instants on RefCal. Crate built with the serde feature (the baseline suite does not compile this code). Two genuine defects are listed in known_findings.json.",
         "DESIGN.md §4 C20"),
}
hooks_commits = subprocess.run(['git','-C','/repo','log','--format=%H','--grep=^verif hooks'],capture_output=True,text=True).stdout.split()
m = {
 "version": 1,
 "setup_cmd": "cd /verif/harness && CARGO_NET_OFFLINE=true RUSTFLAGS='--cfg chrono_verif' CARGO_TARGET_DIR=/verif/target cargo build --release --offline",
 "hooks": {
   "guard": "--cfg chrono_verif",
   "enable": "RUSTFLAGS='--cfg chrono_verif' (set by /verif/check and /verif/harness/.cargo/config.toml); adds module chrono::offset::verif (VerifZone, set_mock_now) and one shadow line in Cache::offset",
   "baseline_off_cmd": "cd /repo && cargo nextest run --workspace --no-fail-fast --tool-config-file pb:/w/lib/nextest.toml --profile pb --test-threads 8 --offline || cargo test --workspace --no-fail-fast --offline",
   "source_commits": hooks_commits,
   "add_only": True,
 },
 "engines": [
   {"name": "chrono-mc", "path": "/verif/harness", "serves_properties": sorted(CHECKS),
    "kind_free_text": "bounded exhaustive explorer running the real chrono code in lock-step with Rust reference models (state-space sweeps, boundary-alphabet products, operation histories, edit/fault enumeration); rayon-parallel over deterministic index ranges; panic monitor around impl calls"},
 ],
 "checks": [],
 "not_applicable": [],
 "notes": "./check Cnn [--tier quick|thorough] [--replay file]; exit 0 held / 1 VIOLATION / 2 machinery. Known findings: /verif/known_findings.json. Seeded breaking changes and which check catches them: /verif/seeded/, DESIGN.md.",
}
for p in props:
    i = p['id']
    if i in CHECKS:
        tech, text, note, ref = CHECKS[i]
        m['checks'].append({
          "property_id": i,
          "quick_cmd": f"./check {i} --tier quick",
          "thorough_cmd": f"./check {i} --tier thorough",
          "evidence_file": f"/verif/evidence/{i}.json",
          "replay_cmd_template": f"./check {i} --replay {{path}}",
          "engine": "chrono-mc",
          "level_claimed": {"category": "model_checking", "text": text, "design_ref": ref},
          "level_note": note,
          "technique": tech,
        })
    else:
        m['not_applicable'].append({"property_id": i, "reason": "driver not built yet in this revision (bounded exhaustive exploration is applicable, see DESIGN.md §4); not claimed until its check exists"})
json.dump(m, open(os.path.join(HERE,'MANIFEST.json'),'w'), indent=1)
print("checks:", len(m['checks']), "not_applicable:", len(m['not_applicable']))
