#!/bin/bash
# run every claimed check on the current tree; prints one line per check
tier="${1:-quick}"; cd "$(dirname "$0")/.."
rc_all=0
for id in $(python3 -c "import json;print(' '.join(c['property_id'] for c in json.load(open('MANIFEST.json'))['checks']))"); do
  s=$(date +%s); out=$(./check $id --tier $tier 2>&1); rc=$?; e=$(date +%s)
  echo "$id rc=$rc $((e-s))s $(echo "$out" | grep -c '^KNOWN-FINDING') known | $(echo "$out" | grep "^$id tier" | cut -c1-160)"
  [ $rc -ne 0 ] && { rc_all=1; echo "$out" | grep -A3 "VIOLATION\|MACHINERY" | head -12; }
done
exit $rc_all
