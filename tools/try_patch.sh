#!/bin/bash
# usage: tools/try_patch.sh <patch file> <Cnn> [Cnn ...]   — apply a candidate change to /repo, run the quick checks, undo it
p="$1"; shift
git -C /repo status --porcelain --untracked-files=no | grep -q . && { echo "/repo has local changes"; exit 2; }
git -C /repo apply "$p" || { echo "$(basename $p): does not apply"; exit 2; }
out=""
for c in "$@"; do
  r=$(cd /verif && ./check $c 2>&1); rc=$?
  k=$(echo "$r" | grep -m1 "key=" | sed 's/call:.*//' | cut -c1-90)
  out="$out $c:rc=$rc[$k]"
done
git -C /repo checkout -- .
echo "$(basename $p):$out"
