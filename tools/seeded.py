#!/usr/bin/env python3
"""Apply each seeded change under /verif/seeded/<id>/patch.diff to /repo, run the checks named in
meta.json ("expect_detected_by", default: the property's own check) at the quick tier, record
the outcome in seeded/<id>/result.json, and undo the change. Never commits to /repo.
usage: tools/seeded.py [id ...] [--all-checks] [--tier quick|thorough]"""
import json, os, subprocess, sys, time
V = os.path.dirname(os.path.dirname(os.path.abspath(__file__)))
ids = [a for a in sys.argv[1:] if not a.startswith('--')]
tier = 'thorough' if '--thorough' in sys.argv else 'quick'
allchecks = '--all-checks' in sys.argv
S = os.path.join(V, 'seeded')
if not ids:
    ids = sorted(os.listdir(S))
claimed = [c['property_id'] for c in json.load(open(os.path.join(V, 'MANIFEST.json')))['checks']]
def sh(cmd, **kw):
    return subprocess.run(cmd, shell=True, capture_output=True, text=True, **kw)
assert sh('git -C /repo status --porcelain --untracked-files=no').stdout.strip() == '', '/repo has local changes'
summary = []
for i in ids:
    d = os.path.join(S, i)
    meta = json.load(open(os.path.join(d, 'meta.json')))
    if meta.get('outside_the_properties'):
        # kept for the record: a change that breaks none of the listed properties as stated (see meta.json)
        print(i, 'OUTSIDE THE LISTED PROPERTIES:', meta['outside_the_properties'][:120]); summary.append((i, 'outside')); continue
    checks = claimed if allchecks else meta.get('expect_detected_by') or [meta['property']]
    r = sh(f'git -C /repo apply {d}/patch.diff')
    if r.returncode != 0:
        print(i, 'PATCH DOES NOT APPLY', r.stderr.strip()); summary.append((i, 'noapply')); continue
    res = {}
    try:
        for c in checks:
            if c not in claimed:
                res[c] = {'rc': None, 'note': 'check not built yet'}; continue
            t = time.time()
            r = sh(f'./check {c} --tier {tier}', cwd=V)
            viol = [l for l in r.stdout.splitlines() if l.startswith('VIOLATION')]
            first = ''
            lines = r.stdout.splitlines()
            for k, l in enumerate(lines):
                if l.startswith('VIOLATION'):
                    first = ' | '.join(x.strip() for x in lines[k+1:k+4]); break
            res[c] = {'rc': r.returncode, 'violations': len(viol), 'first': first[:600], 'wall_s': round(time.time()-t, 1)}
    finally:
        sh('git -C /repo checkout -- .')
    det = [c for c, v in res.items() if v.get('rc') == 1]
    out = {'id': i, 'property': meta['property'], 'tier': tier, 'detected_by': det, 'results': res}
    json.dump(out, open(os.path.join(d, 'result.json'), 'w'), indent=1)
    print(i, 'DETECTED by ' + ','.join(det) if det else 'MISSED', {c: v.get('rc') for c, v in res.items()})
    summary.append((i, bool(det)))
# restore evidence of the unchanged tree is the caller's business (re-run the checks)
