//! C09 — default text forms parse back to the same value. Shapes S (dates, seconds) + P.
use chrono::{DateTime, FixedOffset, Month, NaiveDate, NaiveDateTime, NaiveTime, TimeZone, Utc, Weekday};
use chrono_mc::core::*;
use chrono_mc::lattice::*;
use chrono_mc::refcal::*;
use serde_json::json;
use std::fmt::Write as _;
use std::time::Instant;

const CLASSES: &[&str] = &["roundtrip", "signed_year", "five_digit_year", "frac0", "frac3", "frac6", "frac9", "leap60", "negative_offset", "known_display_form", "names"];
const RT: usize = 0;
const SIGNED: usize = 1;
const FIVE: usize = 2;
const F0: usize = 3;
const F3: usize = 4;
const F6: usize = 5;
const F9: usize = 6;
const LEAP: usize = 7;
const NEGOFF: usize = 8;
const KNOWN: usize = 9;
const NAMES: usize = 10;

/// the statement's form rules, checked on the printed text:
/// explicit sign exactly for years outside 0..=9999; fewest of 0/3/6/9 fraction digits; :60 for a leap second
fn check_date_form(acc: &mut Acc, what: &str, s: &str, y: i64) {
    acc.transitions += 1;
    let b = s.as_bytes();
    let signed = b[0] == b'+' || b[0] == b'-';
    let start = if signed { 1 } else { 0 };
    let ndig = b[start..].iter().take_while(|c| c.is_ascii_digit()).count();
    let want_signed = !(0..=9999).contains(&y);
    let val: i64 = s[start..start + ndig].parse().unwrap_or(-1);
    let ok = signed == want_signed && ndig >= 4 && val == y.abs() && (!signed || (b[0] == b'-') == (y < 0));
    if !ok {
        acc.violation(&format!("{}:year-form", what), format!("printed form of a value with year {}", y), "explicit sign exactly outside 0..=9999, at least four digits".into(), s.to_string());
    }
    if want_signed {
        acc.hit_nt(SIGNED);
    }
    if y.abs() >= 10000 {
        acc.hit(FIVE);
    }
}

fn check_time_form(acc: &mut Acc, what: &str, s: &str, sec: u32, frac: u32) {
    acc.transitions += 1;
    // locate HH:MM:SS
    let Some(c1) = s.find(':') else {
        acc.violation(&format!("{}:time-form", what), "printed time".into(), "HH:MM:SS".into(), s.to_string());
        return;
    };
    let t = &s[c1 - 2..];
    let b = t.as_bytes();
    let leap = frac >= 1_000_000_000;
    let f = frac % 1_000_000_000;
    let want_digits = if f == 0 {
        0
    } else if f % 1_000_000 == 0 {
        3
    } else if f % 1000 == 0 {
        6
    } else {
        9
    };
    let ss: u32 = t.get(6..8).and_then(|x| x.parse().ok()).unwrap_or(99);
    let (ndig, fval) = if b.len() > 8 && b[8] == b'.' {
        let n = b[9..].iter().take_while(|c| c.is_ascii_digit()).count();
        (n, t[9..9 + n].parse::<u64>().unwrap_or(u64::MAX))
    } else {
        (0, 0)
    };
    let scaled = if ndig <= 9 { fval * 10u64.pow(9 - ndig as u32) } else { u64::MAX };
    let want_ss = sec % 60 + if leap { 1 } else { 0 };
    if ss != want_ss || ndig != want_digits || (ndig > 0 && scaled != f as u64) {
        acc.violation(&format!("{}:time-form", what), format!("printed form of second {} fraction {} ns", sec % 60, frac), format!("second {:02}, {} fraction digits", want_ss, want_digits), s.to_string());
    }
    match want_digits {
        0 => acc.hit(F0),
        3 => acc.hit(F3),
        6 => acc.hit(F6),
        _ => acc.hit(F9),
    }
    if leap {
        acc.hit_nt(LEAP);
    }
}

fn date_rt(acc: &mut Acc, d: NaiveDate, y: i64, buf: &mut String) {
    buf.clear();
    let _ = write!(buf, "{}", d);
    check_date_form(acc, "NaiveDate", buf, y);
    acc.transitions += 2;
    match buf.parse::<NaiveDate>() {
        Ok(p) if p == d => acc.hit(RT),
        other => acc.violation("NaiveDate:Display->FromStr", format!("{:?}.parse::<NaiveDate>()", buf), format!("Ok({:?})", d), format!("{:?}", other)),
    }
    let l = buf.len();
    let _ = write!(buf, "|{:?}", d);
    let dbg = &buf[l + 1..];
    if dbg != &buf[..l] {
        match dbg.parse::<NaiveDate>() {
            Ok(p) if p == d => {}
            other => acc.violation("NaiveDate:Debug->FromStr", format!("{:?}.parse::<NaiveDate>()", dbg), format!("Ok({:?})", d), format!("{:?}", other)),
        }
    }
}

thread_local! {
    static BUFS: std::cell::RefCell<(String, String)> = std::cell::RefCell::new((String::with_capacity(128), String::with_capacity(128)));
}

/// Display and Debug text of a value in per-thread buffers (no allocation in the sweeps).
fn with_texts<T: std::fmt::Display + std::fmt::Debug, R>(v: &T, f: impl FnOnce(&str, &str) -> R) -> R {
    BUFS.with(|b| {
        let mut b = b.borrow_mut();
        let (d, g) = &mut *b;
        d.clear();
        g.clear();
        let _ = write!(d, "{}", v);
        let _ = write!(g, "{:?}", v);
        f(d, g)
    })
}

fn time_rt(acc: &mut Acc, s: u32, f: u32) {
    let t = mk_time(s, f);
    with_texts(&t, |disp, dbg| {
        for (form, txt) in [("Display", disp), ("Debug", dbg)] {
            check_time_form(acc, "NaiveTime", txt, s, f);
            acc.transitions += 1;
            match txt.parse::<NaiveTime>() {
                Ok(p) if p == t => acc.hit(RT),
                other => acc.violation(&format!("NaiveTime:{}->FromStr", form), format!("{:?}.parse::<NaiveTime>()", txt), format!("Ok({:?})", t), format!("{:?}", other)),
            }
        }
    })
}

fn ndt_rt(acc: &mut Acc, z: i64, s: u32, f: u32) {
    let t = mk_ndt(z, s, f);
    let (y, _, _) = civil_from_days(z);
    with_texts(&t, |disp, dbg| {
        check_date_form(acc, "NaiveDateTime", dbg, y);
        check_time_form(acc, "NaiveDateTime", dbg, s, f);
        acc.transitions += 2;
        match dbg.parse::<NaiveDateTime>() {
            Ok(p) if p == t => acc.hit(RT),
            other => acc.violation("NaiveDateTime:Debug->FromStr", format!("{:?}.parse::<NaiveDateTime>()", dbg), format!("Ok({:?})", t), format!("{:?}", other)),
        }
        match disp.parse::<NaiveDateTime>() {
            Ok(p) if p == t => acc.hit(RT),
            other => {
                acc.hit(KNOWN);
                acc.violation_lazy("NaiveDateTime:Display->FromStr", || (format!("{:?}.parse::<NaiveDateTime>()", disp), format!("Ok({:?})", t), format!("{:?}", other)))
            }
        }
    })
}

fn dt_rt(acc: &mut Acc, z: i64, s: u32, f: u32, off: i32) {
    // the wall clock (z, s, f) is itself a valid naive date-time; the instant must be in range too
    let wall = mk_ndt(z, s, f);
    let fo = FixedOffset::east_opt(off).unwrap();
    let Some(dt) = fo.from_local_datetime(&wall).single() else {
        acc.skip("wall clock whose instant is outside the range");
        return;
    };
    let (y, _, _) = civil_from_days(z);
    with_texts(&dt, |disp, dbg| {
        for (form, txt) in [("Display", disp), ("Debug", dbg)] {
            check_date_form(acc, "DateTime<FixedOffset>", txt, y);
            check_time_form(acc, "DateTime<FixedOffset>", txt, s, f);
            acc.transitions += 1;
            match txt.parse::<DateTime<FixedOffset>>() {
                Ok(p) if p == dt && p.offset().local_minus_utc() == off && p.naive_utc() == dt.naive_utc() => acc.hit(RT),
                other => acc.violation(&format!("DateTime<FixedOffset>:{}->FromStr", form), format!("{:?}.parse::<DateTime<FixedOffset>>()", txt), format!("Ok({:?})", dt), format!("{:?}", other)),
            }
            if (-261_000..=261_000).contains(&y) {
                // the same text read into the other two zone types denotes the same instant
                acc.transitions += 2;
                let lu = (txt.parse::<DateTime<chrono::Local>>().map(|x| x.naive_utc()), txt.parse::<DateTime<Utc>>().map(|x| x.naive_utc()));
                if lu != (Ok(dt.naive_utc()), Ok(dt.naive_utc())) {
                    acc.violation(&format!("DateTime<Local>/<Utc>:FromStr of the {} text of a DateTime<FixedOffset>", form), format!("{:?}.parse::<DateTime<Local>>() / ::<DateTime<Utc>>()", txt), format!("instant {:?}", dt.naive_utc()), format!("{:?}", lu));
                }
            }
        }
    });
    if off < 0 {
        acc.hit(NEGOFF);
    }
    if off == 0 {
        let u: DateTime<Utc> = Utc.from_utc_datetime(&wall);
        with_texts(&u, |disp, dbg| {
            for (form, txt) in [("Display", disp), ("Debug", dbg)] {
                check_date_form(acc, "DateTime<Utc>", txt, y);
                check_time_form(acc, "DateTime<Utc>", txt, s, f);
                acc.transitions += 1;
                match txt.parse::<DateTime<Utc>>() {
                    Ok(p) if p == u && p.naive_utc() == wall => acc.hit(RT),
                    other => acc.violation(&format!("DateTime<Utc>:{}->FromStr", form), format!("{:?}.parse::<DateTime<Utc>>()", txt), format!("Ok({:?})", u), format!("{:?}", other)),
                }
            }
        });
    }
}

/// Histories of length two on one thread: every ordered pair of an alphabet of values whose printed or parsed forms
/// could share a hidden cache slot (same day of year in a leap and a common year, same second modulo 2^16, offsets in
/// the same quarter hour, a failed parse before a good one). A result must not depend on the call before it.
fn history_pairs(acc: &mut Acc) {
    let dates: Vec<i64> = [(2024i64, 3u32, 1u32), (2023, 3, 2), (2023, 3, 1), (2024, 2, 29), (-4, 2, 29), (10001, 3, 1), (2024, 12, 31), (2023, 12, 31), (67560, 6, 1), (2024, 6, 1), (0, 1, 1), (-1, 12, 31), (9999, 12, 31), (10000, 1, 1)].iter().map(|&(y, m, d)| days_from_civil(y, m, d)).collect();
    let times: Vec<(u32, u32)> = vec![(3600, 0), (69_136, 0), (86_399, 1_500_000_000), (0, 500_000_000), (86_399, 123_456_000), (86_399, 1_000_123_000), (45_296, 123_000_000), (45_296, 0)];
    let offs: Vec<i32> = vec![19_800, 20_220, 20_700, 21_180, -11_160, -10_800, 720, -720, 0, -420, 36_000, -36_000];
    let mut buf = String::with_capacity(64);
    for &i in &pair_order(dates.len()) {
        let z = dates[i];
        let (y, _, _) = civil_from_days(z);
        date_rt(acc, mk_date(z), y, &mut buf);
    }
    for &i in &pair_order(times.len()) {
        time_rt(acc, times[i].0, times[i].1);
        // a rejected text in between must leave nothing behind
        acc.transitions += 1;
        if "23:59:59.123 UTC".parse::<NaiveTime>().is_ok() || "12:60:00".parse::<NaiveTime>().is_ok() {
            acc.violation("NaiveTime::from_str:accepts-invalid", "\"23:59:59.123 UTC\" / \"12:60:00\" parsed as NaiveTime".into(), "Err".into(), "Ok".into());
        }
        time_rt(acc, times[i].0, times[i].1);
    }
    let mut states: Vec<(i64, u32, u32, i32)> = vec![];
    for (k, &o) in offs.iter().enumerate() {
        states.push((dates[k % dates.len()], times[k % times.len()].0, times[k % times.len()].1, o));
    }
    for &i in &pair_order(states.len()) {
        let (z, s, f, o) = states[i];
        dt_rt(acc, z, s, f, o);
        ndt_rt(acc, z, s, f);
    }
    for &i in &pair_order(offs.len()) {
        let fo = FixedOffset::east_opt(offs[i]).unwrap();
        acc.transitions += 1;
        let (d, g) = (fo.to_string(), format!("{:?}", fo));
        if d.parse::<FixedOffset>() != Ok(fo) || g.parse::<FixedOffset>() != Ok(fo) {
            acc.violation("FixedOffset:text->FromStr:history", format!("FixedOffset({} s) printed as {:?} / {:?} after another offset", offs[i], d, g), format!("{:?}", fo), format!("{:?} / {:?}", d.parse::<FixedOffset>(), g.parse::<FixedOffset>()));
        }
    }
    // names: the same text twice in a row, valid and invalid, must get the same verdict both times
    for txt in ["septem", "Augustin", "Saturdax", "Saturday", "Wednesdax", "may", "mayy", "sun", "su"] {
        for _ in 0..2 {
            acc.transitions += 2;
            let (w, m) = (txt.parse::<Weekday>().ok(), txt.parse::<Month>().ok());
            let ww = ["monday", "tuesday", "wednesday", "thursday", "friday", "saturday", "sunday"].iter().position(|n| *n == txt.to_ascii_lowercase() || n[..3] == txt.to_ascii_lowercase());
            let mm = ["january", "february", "march", "april", "may", "june", "july", "august", "september", "october", "november", "december"].iter().position(|n| *n == txt.to_ascii_lowercase() || n[..3] == txt.to_ascii_lowercase());
            if w.map(|x| x.num_days_from_monday() as usize) != ww || m.map(|x| x.number_from_month() as usize - 1) != mm {
                acc.violation("Weekday/Month::from_str:history", format!("{:?}.parse::<Weekday>() / ::<Month>() (repeated)", txt), format!("{:?} / {:?}", ww, mm), format!("{:?} / {:?}", w, m));
            }
        }
    }
}

fn small_types(acc: &mut Acc) {
    for m in -1439..=1439i32 {
        let fo = FixedOffset::east_opt(m * 60).unwrap();
        for (form, txt) in [("Display", fo.to_string()), ("Debug", format!("{:?}", fo))] {
            acc.transitions += 1;
            match txt.parse::<FixedOffset>() {
                Ok(p) if p == fo => acc.hit(RT),
                other => acc.violation(&format!("FixedOffset:{}->FromStr", form), format!("{:?}.parse::<FixedOffset>()", txt), format!("Ok({:?})", fo), format!("{:?}", other)),
            }
            // form: sign, two-digit hours, colon, two-digit minutes
            let b = txt.as_bytes();
            let want_sign = if m < 0 { b'-' } else { b'+' };
            let ok = b.len() == 6 && b[0] == want_sign && b[3] == b':' && txt[1..3].parse::<i32>().ok() == Some(m.abs() / 60) && txt[4..6].parse::<i32>().ok() == Some(m.abs() % 60);
            if !ok {
                acc.violation("FixedOffset:form", format!("printed form of the offset {} minutes", m), "+HH:MM / -HH:MM".into(), txt.clone());
            }
        }
        acc.states += 1;
    }
    for w in [Weekday::Mon, Weekday::Tue, Weekday::Wed, Weekday::Thu, Weekday::Fri, Weekday::Sat, Weekday::Sun] {
        for txt in [w.to_string(), format!("{:?}", w)] {
            acc.transitions += 1;
            if txt.parse::<Weekday>() != Ok(w) {
                acc.violation("Weekday:text->FromStr", format!("{:?}.parse::<Weekday>()", txt), format!("Ok({:?})", w), format!("{:?}", txt.parse::<Weekday>()));
            }
            acc.hit(NAMES);
        }
    }
    let mut mo = Month::January;
    for _ in 0..12 {
        for txt in [format!("{:?}", mo), mo.name().to_string()] {
            acc.transitions += 1;
            if txt.parse::<Month>() != Ok(mo) {
                acc.violation("Month:text->FromStr", format!("{:?}.parse::<Month>()", txt), format!("Ok({:?})", mo), format!("{:?}", txt.parse::<Month>()));
            }
            acc.hit(NAMES);
        }
        mo = mo.succ();
    }
}

fn main() {
    install_panic_hook();
    let args = parse_args();
    let start = Instant::now();
    if let Err(e) = selftest() {
        machinery(&format!("RefCal self-test failed: {}", e));
    }
    let spec = Spec {
        property: "C09",
        classes: CLASSES,
        required: &["roundtrip", "signed_year", "five_digit_year", "frac0", "frac3", "frac6", "frac9", "leap60", "negative_offset", "names"],
        rule: "NaiveDate: every date of the swept years (thorough: every representable date), Display and Debug -> FromStr; NaiveTime: every second of the day x one fraction of each printing class (0, ms, us, ns) + leap on :59; NaiveDateTime: boundary dates x boundary times (Debug round trip; the Display form is a known finding); DateTime<FixedOffset>/<Utc>: wall clocks boundary dates x boundary times x ALL 2,879 whole-minute offsets on the small date set and the boundary offsets elsewhere, Display and Debug; FixedOffset: all whole-minute offsets; Weekday, Month: all; the printed text is also checked for the statement's form rules (sign exactly outside 0..=9999, fewest of 0/3/6/9 fraction digits, :60); non-trivial = signed / 5-6 digit year, leap second",
        assumptions: &["the wall clock of a printed DateTime is itself a representable NaiveDateTime (the one-day headroom is outside 'dates x times x offsets' and is left to C15)", "only the form rules the statement names are checked on the text, not its exact layout"],
    };
    let tier = args.tier;
    let sweep_years: Vec<i64> = if tier == Tier::Thorough {
        (MIN_YEAR..=MAX_YEAR).collect()
    } else {
        let mut v = years(Tier::Thorough);
        v.extend((MIN_YEAR..=MAX_YEAR).step_by(97));
        v.sort();
        v.dedup();
        v
    };
    const YCHUNK: usize = 128;
    let n_sweep = ((sweep_years.len() + YCHUNK - 1) / YCHUNK) as u64;
    let dates = b_dates(tier);
    let small = b_dates_small();
    let times = b_times_fracs(true);
    let offs_small = b_offsets_small().into_iter().filter(|o| o % 60 == 0).collect::<Vec<_>>();
    let offs_min = b_offsets_minutes();
    let nd = dates.len() as u64;
    let only = replay_unit(&args);
    let fr: [u32; 9] = [0, 500_000_000, 123_000_000, 123_456_000, 1000, 123_456_789, 1, 999_999_999, 999_000_000];
    let acc = explore_units(n_sweep + 96 + nd + 1, CLASSES.len(), only, |u, acc| {
        if u < n_sweep {
            let mut buf = String::with_capacity(64);
            for &y in &sweep_years[u as usize * YCHUNK..((u as usize + 1) * YCHUNK).min(sweep_years.len())] {
                let z0 = days_from_civil(y, 1, 1);
                let mut d = mk_date(z0);
                let n = days_in_year(y) as i64;
                for k in 0..n {
                    date_rt(acc, d, y, &mut buf);
                    acc.states += 1;
                    if k + 1 < n {
                        d = d.succ_opt().unwrap();
                    }
                }
            }
            acc.traces += 1;
            if u % 11 == 0 {
                let y = sweep_years[u as usize * YCHUNK];
                acc.sample(|| format!("every date of year {}..: e.g. {:?} -> {:?} -> parse", y, mk_date(days_from_civil(y, 2, 28)), mk_date(days_from_civil(y, 2, 28)).to_string()));
            }
        } else if u < n_sweep + 96 {
            let s0 = (u - n_sweep) as u32 * 900;
            for s in s0..s0 + 900 {
                for &f in &fr {
                    time_rt(acc, s, f);
                }
                if s % 60 == 59 {
                    for &f in &[1_000_000_000u32, 1_500_000_000, 1_000_001_000, 1_999_999_999] {
                        time_rt(acc, s, f);
                    }
                }
                acc.states += 1;
            }
            acc.traces += 1;
        } else if u < n_sweep + 96 + nd {
            let z = dates[(u - n_sweep - 96) as usize];
            let is_small = small.binary_search(&z).is_ok();
            for &(s, f) in &times {
                ndt_rt(acc, z, s, f);
                let offs: &[i32] = if is_small && (tier == Tier::Thorough || f == 0 || f == 1_500_000_000 || s == 86399) { &offs_min } else { &offs_small };
                for &o in offs {
                    dt_rt(acc, z, s, f, o);
                }
                acc.states += 1;
            }
            acc.traces += 1;
            if (u - n_sweep) % 211 == 0 {
                acc.sample(|| {
                    let dt = FixedOffset::east_opt(-1800).unwrap().from_utc_datetime(&mk_ndt(z, 86399, 1_500_000_000));
                    format!("{:?} / {} -> parse -> same instant and offset", dt, dt)
                });
            }
        } else {
            small_types(acc);
            history_pairs(acc);
            acc.traces += 1;
        }
    });
    let extra = Extra {
        bounds: json!({"swept_years": sweep_years.len(), "all_dates": tier == Tier::Thorough, "seconds": 86400, "fractions": fr, "boundary_dates": dates.len(), "times": times.len(), "whole_minute_offsets": 2879}),
        exhaustive: false,
        more: vec![],
    };
    finish(&spec, &args, start, acc, extra);
}
