//! C19 — Weekday / Month / WeekdaySet algebra. Exhaustive as quantified.
use chrono::{Month, Weekday, WeekdaySet};
use chrono_mc::check_eq;
use chrono_mc::core::*;
use chrono_mc::lattice::*;
use num_traits::FromPrimitive;
use serde_json::json;
use std::collections::BTreeSet;
use stateright::{Checker, Model, Property};
use std::sync::atomic::{AtomicU64, Ordering};
use std::time::Instant;

static DFS_ITER_STATES: AtomicU64 = AtomicU64::new(0);

const CLASSES: &[&str] = &["conv_accept", "conv_reject", "alias_reject", "parse_accept", "parse_reject", "set_op", "iter_seq", "iter_wrap", "iter_mixed_ends"];
const CONV_OK: usize = 0;
const CONV_REJ: usize = 1;
const ALIAS_REJ: usize = 2;
const P_OK: usize = 3;
const P_REJ: usize = 4;
const SET_OP: usize = 5;
const IT_SEQ: usize = 6;
const IT_WRAP: usize = 7;
const IT_MIXED: usize = 8;

const WD: [Weekday; 7] = [Weekday::Mon, Weekday::Tue, Weekday::Wed, Weekday::Thu, Weekday::Fri, Weekday::Sat, Weekday::Sun];
const WD_SHORT: [&str; 7] = ["Mon", "Tue", "Wed", "Thu", "Fri", "Sat", "Sun"];
const WD_LONG: [&str; 7] = ["Monday", "Tuesday", "Wednesday", "Thursday", "Friday", "Saturday", "Sunday"];
const MO: [Month; 12] = [
    Month::January,
    Month::February,
    Month::March,
    Month::April,
    Month::May,
    Month::June,
    Month::July,
    Month::August,
    Month::September,
    Month::October,
    Month::November,
    Month::December,
];
const MO_LONG: [&str; 12] = ["January", "February", "March", "April", "May", "June", "July", "August", "September", "October", "November", "December"];

fn wd_index(w: Weekday) -> usize {
    WD.iter().position(|x| *x == w).unwrap()
}
fn mo_index(m: Month) -> usize {
    MO.iter().position(|x| *x == m).unwrap()
}

fn cycles(acc: &mut Acc) {
    for i in 0..7 {
        let w = WD[i];
        check_eq!(acc, "Weekday::succ", w.succ(), WD[(i + 1) % 7], format!("{:?}.succ()", w));
        check_eq!(acc, "Weekday::pred", w.pred(), WD[(i + 6) % 7], format!("{:?}.pred()", w));
        check_eq!(acc, "Weekday::number_from_monday", w.number_from_monday(), i as u32 + 1, format!("{:?}.number_from_monday()", w));
        check_eq!(acc, "Weekday::num_days_from_monday", w.num_days_from_monday(), i as u32, format!("{:?}.num_days_from_monday()", w));
        check_eq!(acc, "Weekday::number_from_sunday", w.number_from_sunday(), (i as u32 + 1) % 7 + 1, format!("{:?}.number_from_sunday()", w));
        check_eq!(acc, "Weekday::num_days_from_sunday", w.num_days_from_sunday(), (i as u32 + 1) % 7, format!("{:?}.num_days_from_sunday()", w));
        check_eq!(acc, "Weekday::Display", w.to_string(), WD_SHORT[i].to_string(), format!("{:?}.to_string()", w));
        check_eq!(acc, "Weekday::Display:pad", format!("{:>6}|{:<5}|{:^7}", w, w, w), format!("{:>6}|{:<5}|{:^7}", WD_SHORT[i], WD_SHORT[i], WD_SHORT[i]), format!("padded Display of {:?}", w));
        for j in 0..7 {
            check_eq!(acc, "Weekday::days_since", w.days_since(WD[j]), ((i + 7 - j) % 7) as u32, format!("{:?}.days_since({:?})", w, WD[j]));
        }
        let mut x = w;
        for _ in 0..7 {
            x = x.succ();
        }
        check_eq!(acc, "Weekday::succ^7", x, w, format!("{:?} after 7 succ()", w));
        acc.states += 1;
    }
    for i in 0..12 {
        let m = MO[i];
        check_eq!(acc, "Month::succ", m.succ(), MO[(i + 1) % 12], format!("{:?}.succ()", m));
        check_eq!(acc, "Month::pred", m.pred(), MO[(i + 11) % 12], format!("{:?}.pred()", m));
        check_eq!(acc, "Month::number_from_month", m.number_from_month(), i as u32 + 1, format!("{:?}.number_from_month()", m));
        check_eq!(acc, "Month::name", m.name(), MO_LONG[i], format!("{:?}.name()", m));
        let mut x = m;
        for _ in 0..12 {
            x = x.succ();
        }
        check_eq!(acc, "Month::succ^12", x, m, format!("{:?} after 12 succ()", m));
        // order follows numbering
        for j in 0..12 {
            check_eq!(acc, "Month::ord", m.cmp(&MO[j]), i.cmp(&j), format!("{:?}.cmp({:?})", m, MO[j]));
        }
        acc.states += 1;
    }
}

macro_rules! conv {
    ($acc:expr, $ty:ty, $from:ident, $x:expr) => {{
        let x: $ty = $x;
        let xi = x as i128;
        // Weekday: 0..=6
        let e = if xi >= 0 && xi <= 6 { Some(WD[xi as usize]) } else { None };
        let a = Weekday::$from(x);
        $acc.transitions += 1;
        if a != e {
            $acc.violation(concat!("Weekday::", stringify!($from)), format!("Weekday::{}({}{})", stringify!($from), x, stringify!($ty)), format!("{:?}", e), format!("{:?}", a));
        }
        let e2 = if xi >= 1 && xi <= 12 { Some(MO[xi as usize - 1]) } else { None };
        let a2 = Month::$from(x);
        $acc.transitions += 1;
        if a2 != e2 {
            $acc.violation(concat!("Month::", stringify!($from)), format!("Month::{}({}{})", stringify!($from), x, stringify!($ty)), format!("{:?}", e2), format!("{:?}", a2));
        }
        if e.is_some() || e2.is_some() {
            $acc.hit(CONV_OK);
        } else if xi > 255 || xi < 0 {
            $acc.hit_nt(ALIAS_REJ);
        } else {
            $acc.hit_nt(CONV_REJ);
        }
    }};
}

fn conversions(acc: &mut Acc) {
    // TryFrom<u8>: all 256
    for v in 0..=255u8 {
        let e = if v <= 6 { Some(WD[v as usize]) } else { None };
        check_eq!(acc, "Weekday::try_from(u8)", Weekday::try_from(v).ok(), e, format!("Weekday::try_from({}u8)", v));
        let e = if (1..=12).contains(&v) { Some(MO[v as usize - 1]) } else { None };
        check_eq!(acc, "Month::try_from(u8)", Month::try_from(v).ok(), e, format!("Month::try_from({}u8)", v));
        conv!(acc, u8, from_u8, v);
        conv!(acc, i8, from_i8, v as i8);
    }
    // the integer lattice plus alias classes k*2^8+v, k*2^16+v, k*2^32+v, 2^63+v
    let mut xs: Vec<i128> = lattice(i64::MIN as i128, u64::MAX as i128, 65);
    for v in 0..=13i128 {
        for k in [1i128, 2, 3, 255, 1 << 31] {
            for sh in [8u32, 16, 24, 31, 32, 48, 63] {
                xs.push(k.wrapping_mul(1i128 << sh) + v);
                xs.push(-(k.wrapping_mul(1i128 << sh)) + v);
            }
        }
        xs.push(v);
        xs.push(-v);
    }
    xs.sort();
    xs.dedup();
    for &x in &xs {
        if x >= i64::MIN as i128 && x <= i64::MAX as i128 {
            conv!(acc, i64, from_i64, x as i64);
            conv!(acc, isize, from_isize, x as isize);
        }
        if x >= 0 && x <= u64::MAX as i128 {
            conv!(acc, u64, from_u64, x as u64);
            conv!(acc, usize, from_usize, x as usize);
        }
        if x >= 0 && x <= u32::MAX as i128 {
            conv!(acc, u32, from_u32, x as u32);
        }
        if x >= i32::MIN as i128 && x <= i32::MAX as i128 {
            conv!(acc, i32, from_i32, x as i32);
        }
        if x >= 0 && x <= u16::MAX as i128 {
            conv!(acc, u16, from_u16, x as u16);
        }
        if x >= i16::MIN as i128 && x <= i16::MAX as i128 {
            conv!(acc, i16, from_i16, x as i16);
        }
        conv!(acc, i128, from_i128, x);
        if x >= 0 {
            conv!(acc, u128, from_u128, x as u128);
        }
    }
    acc.states += xs.len() as u64;
}

fn case_variants(name: &str) -> Vec<String> {
    let b: Vec<char> = name.chars().collect();
    let n = b.len();
    let mut out = vec![];
    for mask in 0..(1u32 << n) {
        let s: String = (0..n).map(|i| if mask >> i & 1 == 1 { b[i].to_ascii_uppercase() } else { b[i].to_ascii_lowercase() }).collect();
        out.push(s);
    }
    out
}

fn ref_parse_wd(s: &str) -> Option<Weekday> {
    let l = s.to_ascii_lowercase();
    (0..7).find(|&i| l == WD_SHORT[i].to_ascii_lowercase() || l == WD_LONG[i].to_ascii_lowercase()).map(|i| WD[i])
}
fn ref_parse_mo(s: &str) -> Option<Month> {
    let l = s.to_ascii_lowercase();
    (0..12).find(|&i| l == MO_LONG[i][..3].to_ascii_lowercase() || l == MO_LONG[i].to_ascii_lowercase()).map(|i| MO[i])
}

/// every string is judged twice in a row: the verdict on a text must not depend on having seen it (or a look-alike)
/// just before
fn parse_one(acc: &mut Acc, s: &str) {
    parse_once(acc, s);
    parse_once(acc, s);
}
fn parse_once(acc: &mut Acc, s: &str) {
    let e = ref_parse_wd(s);
    match guard(|| s.parse::<Weekday>().ok()) {
        Ok(a) => {
            acc.transitions += 1;
            if a != e {
                acc.violation("Weekday::from_str", format!("{:?}.parse::<Weekday>()", s), format!("{:?}", e), format!("{:?}", a));
            }
        }
        Err(p) => acc.violation("Weekday::from_str:panic", format!("{:?}.parse::<Weekday>()", s), format!("{:?}", e), format!("panic: {}", p)),
    }
    let e2 = ref_parse_mo(s);
    match guard(|| s.parse::<Month>().ok()) {
        Ok(a) => {
            acc.transitions += 1;
            if a != e2 {
                acc.violation("Month::from_str", format!("{:?}.parse::<Month>()", s), format!("{:?}", e2), format!("{:?}", a));
            }
        }
        Err(p) => acc.violation("Month::from_str:panic", format!("{:?}.parse::<Month>()", s), format!("{:?}", e2), format!("panic: {}", p)),
    }
    if e.is_some() || e2.is_some() {
        acc.hit(P_OK);
    } else {
        acc.hit_nt(P_REJ);
    }
}

fn fold_traps() -> &'static [char] {
    static T: std::sync::OnceLock<Vec<char>> = std::sync::OnceLock::new();
    T.get_or_init(|| (0x80u32..=0x10FFFF).filter_map(char::from_u32).filter(|c| c.to_uppercase().chain(c.to_lowercase()).any(|x| x.is_ascii_alphabetic())).collect())
}

fn parsing(acc: &mut Acc, tier: Tier) {
    let mut names: Vec<String> = vec![];
    for i in 0..7 {
        names.push(WD_SHORT[i].into());
        names.push(WD_LONG[i].into());
    }
    for i in 0..12 {
        names.push(MO_LONG[i][..3].into());
        names.push(MO_LONG[i].into());
    }
    let mut seen: BTreeSet<String> = BTreeSet::new();
    // every case variant of every name
    for n in &names {
        for v in case_variants(n) {
            seen.insert(v);
        }
    }
    // every name +- one character (insert / delete / replace) over a trigger alphabet, and every prefix
    let alpha: Vec<char> = "asy. é\u{0130}\u{212A}Mm1".chars().collect(); // incl. Kelvin sign / dotted I (non-ASCII case folding traps)
    for n in &names {
        for base in [n.clone(), n.to_ascii_lowercase(), n.to_ascii_uppercase()] {
            let cs: Vec<char> = base.chars().collect();
            for i in 0..=cs.len() {
                seen.insert(cs[..i].iter().collect());
                for &a in &alpha {
                    let mut x = cs.clone();
                    x.insert(i, a);
                    seen.insert(x.iter().collect());
                    if i < cs.len() {
                        let mut y = cs.clone();
                        y[i] = a;
                        seen.insert(y.iter().collect());
                    }
                }
                if i < cs.len() {
                    let mut z = cs.clone();
                    z.remove(i);
                    seen.insert(z.iter().collect());
                }
            }
        }
        // every non-ASCII character whose Unicode upper- or lower-case form contains an ASCII letter (long s, dotless i,
        // Kelvin sign, sharp s, the ff / fi / st ligatures, ...), in place of every one and every two characters:
        // only ASCII case folding is allowed to make a name match
        for base in [n.clone(), n.to_ascii_lowercase(), n.to_ascii_uppercase()] {
            let cs: Vec<char> = base.chars().collect();
            for &t in fold_traps() {
                for i in 0..cs.len() {
                    let mut y = cs.clone();
                    y[i] = t;
                    seen.insert(y.iter().collect());
                    if i + 1 < cs.len() {
                        y.remove(i + 1);
                        seen.insert(y.iter().collect());
                    }
                }
            }
        }
        // name followed by another name
        for m in names.iter().take(6) {
            seen.insert(format!("{}{}", n, m));
            seen.insert(format!("{} {}", n, m));
        }
    }
    // all strings of length <= 3 (quick) / 4 (thorough) over the letters that occur in the names + traps
    let letters: Vec<char> = "abcdefghijlmnoprstuvwyMSé ".chars().collect();
    let maxlen = if tier == Tier::Thorough { 4 } else { 3 };
    let mut cur: Vec<String> = vec![String::new()];
    for _ in 0..maxlen {
        let mut nxt = vec![];
        for s in &cur {
            for &c in &letters {
                let mut t = s.clone();
                t.push(c);
                nxt.push(t);
            }
        }
        for s in &nxt {
            seen.insert(s.clone());
        }
        cur = nxt;
    }
    // every name followed by every tail of up to 3 characters over characters of 1, 2, 3 and 4 bytes
    // (a scanner that slices by byte length must not split a character)
    let tail_chars = ['x', 'é', '€', '\u{1F600}'];
    let mut tails: Vec<String> = vec![String::new()];
    for _ in 0..3 {
        let mut nxt = vec![];
        for t in &tails {
            for c in tail_chars {
                let mut x = t.clone();
                x.push(c);
                nxt.push(x);
            }
        }
        for t in &nxt {
            for n in &names {
                seen.insert(format!("{}{}", n, t));
                seen.insert(format!("{}{}", &n[..n.len().min(3)], t));
            }
        }
        tails = nxt;
    }
    seen.insert(String::new());
    for s in &seen {
        parse_one(acc, s);
    }
    acc.states += seen.len() as u64;
    acc.sample(|| format!("parsed {} distinct strings, e.g. {:?}", seen.len(), seen.iter().skip(seen.len() / 2).take(3).collect::<Vec<_>>()));
}

fn mk_set(bits: u8) -> WeekdaySet {
    let mut s = WeekdaySet::EMPTY;
    for i in 0..7 {
        if bits >> i & 1 == 1 {
            s.insert(WD[i]);
        }
    }
    s
}
fn set_bits(s: WeekdaySet) -> u8 {
    let mut b = 0;
    for i in 0..7 {
        if s.contains(WD[i]) {
            b |= 1 << i;
        }
    }
    b
}

/// FromIterator / Extend-like collection from every sequence of weekdays (with repeats, any order) whose first
/// symbol is `first`, up to `maxlen` items: the result is exactly the set of days that occur.
fn collect_sequences(acc: &mut Acc, first: usize, maxlen: usize) {
    let mut seq: Vec<usize> = vec![first];
    // odometer over the remaining positions, all lengths 1..=maxlen
    loop {
        let want: u8 = seq.iter().fold(0, |b, &i| b | 1 << i);
        let got: WeekdaySet = seq.iter().map(|&i| WD[i]).collect();
        acc.transitions += 1;
        if set_bits(got) != want {
            acc.violation("WeekdaySet::from_iter:sequence", format!("{:?}.into_iter().collect::<WeekdaySet>()", seq.iter().map(|&i| WD[i]).collect::<Vec<_>>()), format!("{:07b}", want), format!("{:?}", got));
        }
        if seq.len() < maxlen {
            seq.push(0);
            continue;
        }
        // advance
        loop {
            if seq.len() == 1 {
                return;
            }
            let l = seq.len() - 1;
            if seq[l] < 6 {
                seq[l] += 1;
                break;
            }
            seq.pop();
        }
    }
}

fn sets(acc: &mut Acc) {
    for a in 0..128u8 {
        let sa = mk_set(a);
        acc.states += 1;
        check_eq!(acc, "WeekdaySet:build/contains", set_bits(sa), a, format!("members of the set built by inserting bits {:07b}", a));
        check_eq!(acc, "WeekdaySet::len", sa.len(), a.count_ones() as u8, format!("{:?}.len()", sa));
        check_eq!(acc, "WeekdaySet::is_empty", sa.is_empty(), a == 0, format!("{:?}.is_empty()", sa));
        let first = (0..7).find(|i| a >> i & 1 == 1).map(|i| WD[i]);
        let last = (0..7).rev().find(|i| a >> i & 1 == 1).map(|i| WD[i]);
        check_eq!(acc, "WeekdaySet::first", sa.first(), first, format!("{:?}.first()", sa));
        check_eq!(acc, "WeekdaySet::last", sa.last(), last, format!("{:?}.last()", sa));
        check_eq!(acc, "WeekdaySet::single_day", sa.single_day(), if a.count_ones() == 1 { first } else { None }, format!("{:?}.single_day()", sa));
        let members: Vec<Weekday> = (0..7).filter(|i| a >> i & 1 == 1).map(|i| WD[i]).collect();
        check_eq!(acc, "WeekdaySet::from_iter", members.iter().cloned().collect::<WeekdaySet>(), sa, format!("{:?}.into_iter().collect::<WeekdaySet>()", members));
        let mut rev = members.clone();
        rev.reverse();
        rev.extend(members.iter().cloned()); // duplicates, other order
        check_eq!(acc, "WeekdaySet::from_iter:dups", rev.iter().cloned().collect::<WeekdaySet>(), sa, format!("{:?}.into_iter().collect::<WeekdaySet>()", rev));
        let disp = format!("[{}]", members.iter().map(|w| WD_SHORT[wd_index(*w)]).collect::<Vec<_>>().join(", "));
        check_eq!(acc, "WeekdaySet::Display", sa.to_string(), disp, format!("{:?}.to_string()", sa));
        if a == 127 {
            check_eq!(acc, "WeekdaySet::ALL", WeekdaySet::ALL, sa, "WeekdaySet::ALL".to_string());
        }
        for i in 0..7 {
            let d = WD[i];
            let had = a >> i & 1 == 1;
            check_eq!(acc, "WeekdaySet::contains", sa.contains(d), had, format!("{:?}.contains({:?})", sa, d));
            let mut t = sa;
            let r = t.insert(d);
            check_eq!(acc, "WeekdaySet::insert", (r, set_bits(t)), (!had, a | 1 << i), format!("{:?}.insert({:?})", sa, d));
            let mut t = sa;
            let r = t.remove(d);
            check_eq!(acc, "WeekdaySet::remove", (r, set_bits(t)), (had, a & !(1 << i)), format!("{:?}.remove({:?})", sa, d));
            check_eq!(acc, "WeekdaySet::single", set_bits(WeekdaySet::single(d)), 1u8 << i, format!("WeekdaySet::single({:?})", d));
            acc.hit(SET_OP);
        }
        for b in 0..128u8 {
            let sb = mk_set(b);
            check_eq!(acc, "WeekdaySet::union", set_bits(sa.union(sb)), a | b, format!("{:?}.union({:?})", sa, sb));
            check_eq!(acc, "WeekdaySet::intersection", set_bits(sa.intersection(sb)), a & b, format!("{:?}.intersection({:?})", sa, sb));
            check_eq!(acc, "WeekdaySet::difference", set_bits(sa.difference(sb)), a & !b, format!("{:?}.difference({:?})", sa, sb));
            check_eq!(acc, "WeekdaySet::symmetric_difference", set_bits(sa.symmetric_difference(sb)), a ^ b, format!("{:?}.symmetric_difference({:?})", sa, sb));
            check_eq!(acc, "WeekdaySet::is_subset", sa.is_subset(sb), a & !b == 0, format!("{:?}.is_subset({:?})", sa, sb));
            check_eq!(acc, "WeekdaySet::eq", sa == sb, a == b, format!("{:?} == {:?}", sa, sb));
            // results stay within seven days: len of the result is consistent with its members
            let u = sa.symmetric_difference(sb);
            check_eq!(acc, "WeekdaySet::len-after-op", u.len(), (a ^ b).count_ones() as u8, format!("{:?}.symmetric_difference({:?}).len()", sa, sb));
            acc.hit(SET_OP);
        }
    }
    // from_array
    check_eq!(acc, "WeekdaySet::from_array", set_bits(WeekdaySet::from_array([Weekday::Sun, Weekday::Mon, Weekday::Sun])), 0b1000001u8, "WeekdaySet::from_array([Sun, Mon, Sun])".to_string());
    check_eq!(acc, "WeekdaySet::from_array", set_bits(WeekdaySet::from_array(WD)), 127u8, "WeekdaySet::from_array(all)".to_string());
    check_eq!(acc, "WeekdaySet::from_array", set_bits(WeekdaySet::from_array::<0>([])), 0u8, "WeekdaySet::from_array([])".to_string());
    // long iterators collected into a set: the new day comes last, after 2^8 / 2^16 repeats
    for last in 0..7usize {
        for n in [254usize, 255, 256, 257, 65_535, 65_536, 65_537] {
            let other = WD[(last + 3) % 7];
            let got: WeekdaySet = std::iter::repeat(other).take(n).chain(std::iter::once(WD[last])).collect();
            let want = 1u8 << last | 1 << ((last + 3) % 7);
            check_eq!(acc, "WeekdaySet::from_iter", set_bits(got), want, format!("{} x {:?} then {:?}, collected", n, other, WD[last]));
        }
    }
    // every array of 1..=9 weekdays (with repeats, any order), and long arrays whose new day comes last
    from_array_all::<1>(acc);
    from_array_all::<2>(acc);
    from_array_all::<3>(acc);
    from_array_all::<4>(acc);
    from_array_all::<5>(acc);
    from_array_all::<6>(acc);
    from_array_all::<7>(acc);
    from_array_all::<8>(acc);
    from_array_all::<9>(acc);
    for last in 0..7usize {
        let mut a = [WD[(last + 1) % 7]; 300];
        a[299] = WD[last];
        let want = 1u8 << last | 1 << ((last + 1) % 7);
        check_eq!(acc, "WeekdaySet::from_array", set_bits(WeekdaySet::from_array(a)), want, format!("WeekdaySet::from_array([{:?}; 299] then {:?})", WD[(last + 1) % 7], WD[last]));
    }
}

/// DFS over all next / next_back sequences of the real iterator, in lock-step with a deque
fn from_array_all<const N: usize>(acc: &mut Acc) {
    let mut idx = [0usize; N];
    loop {
        let mut a = [Weekday::Mon; N];
        let mut want = 0u8;
        for k in 0..N {
            a[k] = WD[idx[k]];
            want |= 1 << idx[k];
        }
        acc.transitions += 1;
        let got = set_bits(WeekdaySet::from_array(a));
        if got != want {
            acc.violation_lazy("WeekdaySet::from_array:sequence", || (format!("WeekdaySet::from_array({:?})", a), format!("{:07b}", want), format!("{:07b}", got)));
        }
        let mut k = N;
        loop {
            if k == 0 {
                return;
            }
            k -= 1;
            idx[k] += 1;
            if idx[k] < 7 {
                break;
            }
            idx[k] = 0;
        }
    }
}

fn iter_dfs<I: DoubleEndedIterator<Item = Weekday> + ExactSizeIterator + Clone>(acc: &mut Acc, it: I, rest: &mut Vec<Weekday>, lo: usize, hi: usize, nones: u32, path: &mut String, seen_states: &mut BTreeSet<(Vec<usize>, u32)>) {
    // rest[lo..hi] is what the reference still has to yield
    acc.transitions += 2;
    let n = hi - lo;
    seen_states.insert((rest[lo..hi].iter().map(|w| wd_index(*w)).collect(), nones));
    // (size_hint is left at the default (0, None) by the implementation; the property only speaks of the
    // set's length, so only len() is judged)
    if it.len() != n {
        acc.violation("WeekdaySetIter::len", format!("iterator after [{}] len()", path), format!("{}", n), format!("{}", it.len()));
    }
    if nones >= 2 {
        acc.traces += 1;
        acc.hit(IT_SEQ);
        return;
    }
    // next
    {
        let mut i2 = it.clone();
        let a = i2.next();
        let e = if n > 0 { Some(rest[lo]) } else { None };
        if a != e {
            acc.violation("WeekdaySetIter::next", format!("after [{}]: next()", path), format!("{:?}", e), format!("{:?}", a));
        } else {
            let l = path.len();
            path.push_str(if a.is_some() { "n" } else { "N" });
            iter_dfs(acc, i2, rest, if n > 0 { lo + 1 } else { lo }, hi, if n > 0 { 0 } else { nones + 1 }, path, seen_states);
            path.truncate(l);
        }
    }
    {
        let mut i2 = it.clone();
        let a = i2.next_back();
        let e = if n > 0 { Some(rest[hi - 1]) } else { None };
        if a != e {
            acc.violation("WeekdaySetIter::next_back", format!("after [{}]: next_back()", path), format!("{:?}", e), format!("{:?}", a));
        } else {
            let l = path.len();
            path.push_str(if a.is_some() { "b" } else { "B" });
            if path.contains('n') && path.contains('b') {
                acc.hit(IT_MIXED);
            }
            iter_dfs(acc, i2, rest, lo, if n > 0 { hi - 1 } else { hi }, if n > 0 { 0 } else { nones + 1 }, path, seen_states);
            path.truncate(l);
        }
    }
}

fn iterators(acc: &mut Acc) {
    for a in 0..128u8 {
        let sa = mk_set(a);
        for st in 0..7usize {
            // cyclic order from the start day
            let mut order: Vec<Weekday> = (0..7).map(|k| (st + k) % 7).filter(|i| a >> i & 1 == 1).map(|i| WD[i]).collect();
            if order.first().map(|w| wd_index(*w) < st).unwrap_or(false) || order.windows(2).any(|w| wd_index(w[1]) < wd_index(w[0])) {
                acc.hit_nt(IT_WRAP);
            }
            let fwd: Vec<Weekday> = sa.iter(WD[st]).collect();
            check_eq!(acc, "WeekdaySet::iter:forward", fwd, order.clone(), format!("{:?}.iter({:?}).collect()", sa, WD[st]));
            let mut r = order.clone();
            r.reverse();
            let back: Vec<Weekday> = sa.iter(WD[st]).rev().collect();
            check_eq!(acc, "WeekdaySet::iter:reverse", back, r, format!("{:?}.iter({:?}).rev().collect()", sa, WD[st]));
            let mut seen = BTreeSet::new();
            let mut path = String::new();
            let n = order.len();
            iter_dfs(acc, sa.iter(WD[st]), &mut order, 0, n, 0, &mut path, &mut seen);
            acc.states += seen.len() as u64;
            DFS_ITER_STATES.fetch_add(seen.len() as u64, Ordering::Relaxed);
            if a == 0b0101011 && st == 3 {
                acc.sample(|| format!("set {:?} from {:?}: cyclic order {:?}; all next/next_back sequences explored to two consecutive None", sa, WD[st], order));
            }
        }
    }
}


// ---- second engine: the same iterator transition system as a stateright model (explicit-state BFS) ----------
#[derive(Clone, Debug, PartialEq, Eq, Hash)]
struct ItState {
    init: u8,
    start: u8,
    remaining: u8,
    nones: u8,
    agrees: bool,
}
#[derive(Clone, Debug, PartialEq, Eq)]
enum ItAct {
    Next,
    NextBack,
}
struct ItModel;
impl Model for ItModel {
    type State = ItState;
    type Action = ItAct;
    fn init_states(&self) -> Vec<ItState> {
        let mut v = vec![];
        for a in 0..128u8 {
            for st in 0..7u8 {
                v.push(ItState { init: a, start: st, remaining: a, nones: 0, agrees: true });
            }
        }
        v
    }
    fn actions(&self, s: &ItState, out: &mut Vec<ItAct>) {
        if s.nones < 2 && s.agrees {
            out.push(ItAct::Next);
            out.push(ItAct::NextBack);
        }
    }
    fn next_state(&self, s: &ItState, a: ItAct) -> Option<ItState> {
        // the real iterator over the remaining set with the same start day is exactly the real iterator's state
        let mut it = mk_set(s.remaining).iter(WD[s.start as usize]);
        let order: Vec<usize> = (0..7).map(|k| (s.start as usize + k) % 7).filter(|i| s.remaining >> i & 1 == 1).collect();
        let (got, want) = match a {
            ItAct::Next => (it.next(), order.first().copied()),
            ItAct::NextBack => (it.next_back(), order.last().copied()),
        };
        let agrees = got.map(wd_index) == want && it.len() == order.len().saturating_sub(1);
        let remaining = match got {
            Some(d) => s.remaining & !(1 << wd_index(d)),
            None => s.remaining,
        };
        Some(ItState { init: s.init, start: s.start, remaining, nones: if got.is_some() { 0 } else { s.nones + 1 }, agrees })
    }
    fn properties(&self) -> Vec<Property<Self>> {
        vec![Property::<Self>::always("iterator agrees with the reference deque", |_, s| s.agrees)]
    }
}

fn main() {
    install_panic_hook();
    let args = parse_args();
    let start = Instant::now();
    let spec = Spec {
        property: "C19",
        classes: CLASSES,
        required: &["conv_accept", "conv_reject", "alias_reject", "parse_accept", "parse_reject", "set_op", "iter_seq", "iter_wrap", "iter_mixed_ends"],
        rule: "all 7 weekdays / 12 months (cycles, numbering, distance, names, order); TryFrom<u8> on all 256 values and every FromPrimitive integer method on the integer lattice plus alias classes k*2^8/16/24/31/32/48/63+v; FromStr on every case variant of every name, every 1-edit mutant, every prefix, every non-ASCII character whose Unicode case mapping contains an ASCII letter in place of every one and every two characters of every name, and every string of length <= 3 (4 thorough) over the name letters; all 128 sets x 7 days and all 128^2 pairs for every set operation; collection from every sequence of weekdays of length <= 9 (10 thorough) and from 2^8 / 2^16 +- 1 repeats followed by a new day; from_array on every array of 1..=9 weekdays and on arrays of 300; iterator state machine: all 128 x 7 initial states x every next/next_back sequence until two consecutive None, against a deque; non-trivial = rejected value/string, wrapping iteration, mixed-end sequence",
        assumptions: &["float FromPrimitive conversions are not judged (fractional inputs are not 'numbers of a weekday')", "strings longer than the edit/length bounds are not enumerated"],
    };
    let only = replay_unit(&args);
    let tier = args.tier;
    let seq_len = if tier == Tier::Thorough { 10 } else { 9 };
    let acc = explore_units(12, CLASSES.len(), only, |u, acc| match u {
        0 => cycles(acc),
        1 => conversions(acc),
        2 => parsing(acc, tier),
        3 => sets(acc),
        4 => iterators(acc),
        k => collect_sequences(acc, (k - 5) as usize, seq_len),
    });
    let _ = (mo_index(Month::May), lat_i64().len());
    // cross-check of the explorer: stateright must reach the same number of states and find no counterexample
    let mut acc = acc;
    let mut sr_states = 0u64;
    if only.is_none() {
        let checker = ItModel.checker().threads(8).spawn_bfs().join();
        sr_states = checker.unique_state_count() as u64;
        if let Some(path) = checker.discovery("iterator agrees with the reference deque") {
            acc.violation("WeekdaySetIter:stateright", format!("stateright counterexample: {:?}", path.into_actions()), "the iterator agrees with the reference deque on every path".into(), "a path on which it does not".into());
        } else if sr_states != DFS_ITER_STATES.load(Ordering::Relaxed) && acc.viol.is_empty() {
            machinery(&format!("explorer self-check failed: DFS visited {} iterator states, stateright BFS {}", DFS_ITER_STATES.load(Ordering::Relaxed), sr_states));
        }
    }
    let extra = Extra { bounds: json!({"weekdays": 7, "months": 12, "sets": 128, "set_pairs": 128*128, "iterator_initial_states": 128*7, "max_string_len_enumerated": if tier == Tier::Thorough {4} else {3}, "collected_sequences_max_len": seq_len}), exhaustive: true, more: vec![("second_engine".into(), json!({"engine": "stateright 0.31 spawn_bfs", "model": "WeekdaySetIter transition system (state = initial set, start day, remaining set, trailing Nones; actions next / next_back executed by the real iterator)", "unique_states": sr_states, "dfs_explorer_states": DFS_ITER_STATES.load(Ordering::Relaxed), "counts_equal": sr_states == DFS_ITER_STATES.load(Ordering::Relaxed)}))] };
    finish(&spec, &args, start, acc, extra);
}
