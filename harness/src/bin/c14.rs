//! C14 — field resolution never returns a value that contradicts a supplied field. Shapes P + H, subset-exhaustive.
use chrono::format::{ParseErrorKind, Parsed};
use chrono::{DateTime, FixedOffset, MappedLocalTime, NaiveDate, NaiveDateTime, Offset, TimeZone, Utc, Weekday};
use chrono_mc::core::*;
use chrono_mc::lattice::*;
use chrono_mc::refcal::*;
use serde_json::json;
use std::time::Instant;

const CLASSES: &[&str] = &["resolved", "not_enough", "contradiction_refused", "ok_other_value_sound", "via_timestamp", "leap_second", "pivot_year", "indeterminate_year_group", "setter_twice_equal", "setter_twice_unequal", "setter_out_of_range", "completeness_checked"];
const RESOLVED: usize = 0;
const NOTENOUGH: usize = 1;
const REFUSED: usize = 2;
const OTHER: usize = 3;
const VIATS: usize = 4;
const LEAP: usize = 5;
const PIVOT: usize = 6;
const INDET: usize = 7;
const SET_EQ: usize = 8;
const SET_NE: usize = 9;
const SET_OOR: usize = 10;
const COMPLETE: usize = 11;

const NF: usize = 21;
const F_YEAR: usize = 0;
const F_YDIV: usize = 1;
const F_YMOD: usize = 2;
const F_IY: usize = 3;
const F_IYDIV: usize = 4;
const F_IYMOD: usize = 5;
const F_Q: usize = 6;
const F_MONTH: usize = 7;
const F_WSUN: usize = 8;
const F_WMON: usize = 9;
const F_IW: usize = 10;
const F_WD: usize = 11;
const F_ORD: usize = 12;
const F_DAY: usize = 13;
const F_AMPM: usize = 14;
const F_H12: usize = 15;
const F_MIN: usize = 16;
const F_SEC: usize = 17;
const F_NANO: usize = 18;
const F_TS: usize = 19;
const F_OFF: usize = 20;
const NAMES: [&str; NF] = ["year", "year_div_100", "year_mod_100", "isoyear", "isoyear_div_100", "isoyear_mod_100", "quarter", "month", "week_from_sun", "week_from_mon", "isoweek", "weekday", "ordinal", "day", "ampm", "hour12", "minute", "second", "nanosecond", "timestamp", "offset"];
const DATE_MASK: u32 = (1 << 14) - 1;

const WD: [Weekday; 7] = [Weekday::Mon, Weekday::Tue, Weekday::Wed, Weekday::Thu, Weekday::Fri, Weekday::Sat, Weekday::Sun];

/// field values of a local reading (z, s, f) at offset off; None where the field cannot express the value
fn fields_of(z: i64, s: u32, f: u32, off: i32) -> [Option<i64>; NF] {
    let (y, m, d) = civil_from_days(z);
    let ord = ordinal(y, m, d) as i64;
    let wd = weekday_from_days(z) as i64;
    let (iy, iw) = iso_week_of(z);
    let sun0 = (wd + 1) % 7;
    let h = (s / 3600) as i64;
    let mut v = [None; NF];
    v[F_YEAR] = Some(y);
    if y >= 0 {
        v[F_YDIV] = Some(y / 100);
        v[F_YMOD] = Some(y % 100);
    }
    v[F_IY] = Some(iy);
    if iy >= 0 {
        v[F_IYDIV] = Some(iy / 100);
        v[F_IYMOD] = Some(iy % 100);
    }
    v[F_Q] = Some((m as i64 - 1) / 3 + 1);
    v[F_MONTH] = Some(m as i64);
    v[F_WSUN] = Some((ord - 1 + 7 - sun0) / 7);
    v[F_WMON] = Some((ord - 1 + 7 - wd) / 7);
    v[F_IW] = Some(iw as i64);
    v[F_WD] = Some(wd);
    v[F_ORD] = Some(ord);
    v[F_DAY] = Some(d as i64);
    v[F_AMPM] = Some(h / 12);
    v[F_H12] = Some(if h % 12 == 0 { 12 } else { h % 12 });
    v[F_MIN] = Some((s / 60 % 60) as i64);
    v[F_SEC] = Some((s % 60 + f / 1_000_000_000) as i64);
    v[F_NANO] = Some((f % 1_000_000_000) as i64);
    v[F_TS] = Some(z * 86400 + s as i64 - off as i64);
    v[F_OFF] = Some(off as i64);
    v
}

fn set_field(p: &mut Parsed, i: usize, v: i64) -> Result<(), ParseErrorKind> {
    let r = match i {
        F_YEAR => p.set_year(v),
        F_YDIV => p.set_year_div_100(v),
        F_YMOD => p.set_year_mod_100(v),
        F_IY => p.set_isoyear(v),
        F_IYDIV => p.set_isoyear_div_100(v),
        F_IYMOD => p.set_isoyear_mod_100(v),
        F_Q => p.set_quarter(v),
        F_MONTH => p.set_month(v),
        F_WSUN => p.set_week_from_sun(v),
        F_WMON => p.set_week_from_mon(v),
        F_IW => p.set_isoweek(v),
        F_WD => {
            if (0..7).contains(&v) {
                p.set_weekday(WD[v as usize])
            } else {
                return Err(ParseErrorKind::OutOfRange);
            }
        }
        F_ORD => p.set_ordinal(v),
        F_DAY => p.set_day(v),
        F_AMPM => {
            if v == 0 || v == 1 {
                p.set_ampm(v == 1)
            } else {
                return Err(ParseErrorKind::OutOfRange);
            }
        }
        F_H12 => p.set_hour12(v),
        F_MIN => p.set_minute(v),
        F_SEC => p.set_second(v),
        F_NANO => p.set_nanosecond(v),
        F_TS => p.set_timestamp(v),
        _ => p.set_offset(v),
    };
    r.map_err(|e| e.kind())
}

fn build(vals: &[Option<i64>; NF], mask: u32) -> Option<Parsed> {
    let mut p = Parsed::new();
    for i in 0..NF {
        if mask >> i & 1 == 1 {
            let v = vals[i]?;
            if set_field(&mut p, i, v).is_err() {
                return None;
            }
        }
    }
    Some(p)
}

fn describe(vals: &[Option<i64>; NF], mask: u32) -> String {
    let mut s = String::from("Parsed{");
    for i in 0..NF {
        if mask >> i & 1 == 1 {
            s.push_str(&format!("{}={:?} ", NAMES[i], vals[i].unwrap_or(i64::MIN)));
        }
    }
    s.push('}');
    s
}

/// soundness: the local reading of a successful result agrees with every supplied field
fn sound(acc: &mut Acc, what: &str, vals: &[Option<i64>; NF], mask: u32, r: (i64, u32, u32), off: i32, date_only: bool, time_only: bool) -> bool {
    let rf = fields_of(r.0, r.1, r.2, off);
    for i in 0..NF {
        if mask >> i & 1 == 0 {
            continue;
        }
        if date_only && i >= 14 {
            continue;
        }
        if time_only && !(14..=18).contains(&i) {
            continue;
        }
        if i == F_OFF {
            continue; // judged by the caller (the naive forms take the offset as an argument)
        }
        let supplied = vals[i].unwrap();
        let ok = if i == F_TS {
            supplied == rf[F_TS].unwrap() || (r.2 >= 1_000_000_000 && supplied == rf[F_TS].unwrap() + 1)
        } else {
            rf[i] == Some(supplied)
        };
        if !ok {
            acc.violation(&format!("{}:contradicts-{}", what, NAMES[i]), format!("{}.{}", describe(vals, mask), what), format!("a value whose {} is {} (or an error)", NAMES[i], supplied), format!("Ok(local day {} sec {} frac {}) whose {} is {:?}", r.0, r.1, r.2, NAMES[i], rf[i]));
            return false;
        }
    }
    true
}

struct Suff {
    date: bool,
    time: bool,
    year_groups_determinate: bool,
}

fn sufficiency(mask: u32, base_year: i64, base_isoyear: i64) -> Suff {
    let has = |i: usize| mask >> i & 1 == 1;
    let group = |y: usize, q: usize, r: usize, by: i64| -> (bool, bool) {
        // (resolves to the base year, determinate as far as the statement is concerned)
        if has(y) {
            (true, true)
        } else if has(q) && has(r) {
            (true, true)
        } else if has(r) {
            ((1970..=2069).contains(&by), (1970..=2069).contains(&by))
        } else if has(q) {
            (false, false)
        } else {
            (false, true) // nothing supplied: not indeterminate, just absent
        }
    };
    let (gy, dy) = group(F_YEAR, F_YDIV, F_YMOD, base_year);
    let (gi, di) = group(F_IY, F_IYDIV, F_IYMOD, base_isoyear);
    let date = (gy && ((has(F_MONTH) && has(F_DAY)) || has(F_ORD) || (has(F_WSUN) && has(F_WD)) || (has(F_WMON) && has(F_WD)))) || (gi && has(F_IW) && has(F_WD));
    let time = has(F_AMPM) && has(F_H12) && has(F_MIN) && (!has(F_NANO) || has(F_SEC));
    Suff { date, time, year_groups_determinate: dy && di }
}

fn kind_of<T>(r: &Result<T, chrono::ParseError>) -> Option<ParseErrorKind> {
    r.as_ref().err().map(|e| e.kind())
}

/// one supplied set: resolve through every method and judge
fn resolve(acc: &mut Acc, base: (i64, u32, u32, i32), vals: &[Option<i64>; NF], mask: u32, deviated: bool) {
    let Some(p) = build(vals, mask) else { return };
    let (z, s, f, off) = base;
    acc.transitions += 2;
    let has = |i: usize| mask >> i & 1 == 1;
    let (by, _, _) = civil_from_days(z);
    let (biy, _) = iso_week_of(z);
    let suff = sufficiency(mask, by, biy);
    // ---- to_naive_datetime_with_offset(off) ----
    let r = guard(|| p.to_naive_datetime_with_offset(off));
    let r = match r {
        Ok(r) => r,
        Err(pn) => {
            acc.violation("Parsed::to_naive_datetime_with_offset:panic", format!("{}.to_naive_datetime_with_offset({})", describe(vals, mask), off), "Ok or Err".into(), format!("panic: {}", pn));
            return;
        }
    };
    match &r {
        Ok(ndt) => {
            let rp = ndt_parts(*ndt);
            if !sound(acc, "to_naive_datetime_with_offset", vals, mask, rp, off, false, false) {
                return;
            }
            if !deviated {
                // completeness: exactly the base value (documented defaults for omitted second / nanosecond)
                let explicit = suff.date && suff.time;
                let exp_s = if has(F_SEC) || (!explicit && has(F_TS)) { s } else { s - s % 60 };
                let exp_f = if has(F_SEC) { (if f >= 1_000_000_000 { 1_000_000_000 } else { 0 }) + if has(F_NANO) { f % 1_000_000_000 } else { 0 } } else if has(F_NANO) { f % 1_000_000_000 } else { 0 };
                if suff.year_groups_determinate && (explicit || has(F_TS)) {
                    acc.hit(COMPLETE);
                    if rp != (z, exp_s, exp_f) {
                        acc.violation("to_naive_datetime_with_offset:other-value", format!("{}.to_naive_datetime_with_offset({})", describe(vals, mask), off), format!("the value the fields were derived from: day {} sec {} frac {}", z, exp_s, exp_f), format!("{:?}", ndt));
                        return;
                    }
                }
                acc.hit(RESOLVED);
                if !explicit && has(F_TS) {
                    acc.hit_nt(VIATS);
                }
                if rp.2 >= 1_000_000_000 {
                    acc.hit_nt(LEAP);
                }
                if !has(F_YEAR) && !has(F_YDIV) && has(F_YMOD) {
                    acc.hit_nt(PIVOT);
                }
            } else {
                acc.hit_nt(OTHER);
            }
        }
        Err(e) => {
            let k = e.kind();
            if !deviated {
                let explicit = suff.date && suff.time;
                // documented caveat: a supplied timestamp with an omitted second only resolves when the base second is 0
                let ts_sec_caveat = has(F_TS) && !has(F_SEC) && explicit && s % 60 != 0;
                let ts_leap_caveat = has(F_TS) && f >= 1_000_000_000 && !has(F_SEC);
                if suff.year_groups_determinate && (explicit || has(F_TS)) && !ts_sec_caveat && !ts_leap_caveat {
                    acc.violation("to_naive_datetime_with_offset:refuses-consistent", format!("{}.to_naive_datetime_with_offset({})", describe(vals, mask), off), "Ok(the value the fields were derived from)".into(), format!("Err({:?})", k));
                    return;
                }
                if !has(F_TS) && !explicit && suff.year_groups_determinate && k != ParseErrorKind::NotEnough {
                    acc.violation("to_naive_datetime_with_offset:wrong-error", format!("{}.to_naive_datetime_with_offset({})", describe(vals, mask), off), "Err(NotEnough) (consistent but insufficient fields)".into(), format!("Err({:?})", k));
                    return;
                }
                if !suff.year_groups_determinate {
                    acc.hit_nt(INDET);
                }
                acc.hit_nt(NOTENOUGH);
            } else {
                // a contradiction inside a sufficient set is 'impossible' or 'out of range', never 'not enough'
                if suff.date && suff.time && suff.year_groups_determinate && !has(F_TS) && k == ParseErrorKind::NotEnough {
                    acc.violation("to_naive_datetime_with_offset:wrong-error", format!("{}.to_naive_datetime_with_offset({})", describe(vals, mask), off), "Err(Impossible | OutOfRange)".into(), format!("Err({:?})", k));
                    return;
                }
                acc.hit_nt(REFUSED);
            }
        }
    }
    // ---- to_datetime / to_datetime_with_timezone ----
    let rd = guard(|| p.to_datetime());
    let rt = guard(|| p.to_datetime_with_timezone(&FixedOffset::east_opt(off).unwrap()));
    let ru = guard(|| p.to_datetime_with_timezone(&Utc));
    acc.transitions += 3;
    let check_dt = |acc: &mut Acc, what: &str, got: Result<Result<(NaiveDateTime, i32), chrono::ParseError>, String>, tz_off: Option<i32>| {
        match got {
            Err(pn) => acc.violation(&format!("Parsed::{}:panic", what), format!("{}.{}", describe(vals, mask), what), "Ok or Err".into(), format!("panic: {}", pn)),
            Ok(Ok((local, o))) => {
                let rp = ndt_parts(local);
                if has(F_OFF) && vals[F_OFF] != Some(o as i64) {
                    acc.violation(&format!("{}:contradicts-offset", what), format!("{}.{}", describe(vals, mask), what), format!("offset {:?}", vals[F_OFF]), format!("offset {}", o));
                    return;
                }
                if let Some(t) = tz_off {
                    if t != o {
                        acc.violation(&format!("{}:zone", what), format!("{}.{}", describe(vals, mask), what), format!("offset {}", t), format!("offset {}", o));
                        return;
                    }
                }
                sound(acc, what, vals, mask, rp, o, false, false);
                if !deviated && has(F_OFF) && suff.date && suff.time && suff.year_groups_determinate && (has(F_SEC) || !has(F_TS) || s % 60 == 0) {
                    let exp_s = if has(F_SEC) { s } else { s - s % 60 };
                    let exp_f = if has(F_SEC) { (if f >= 1_000_000_000 { 1_000_000_000 } else { 0 }) + if has(F_NANO) { f % 1_000_000_000 } else { 0 } } else { 0 };
                    if (rp, o) != ((z, exp_s, exp_f), off) {
                        acc.violation(&format!("{}:other-value", what), format!("{}.{}", describe(vals, mask), what), format!("day {} sec {} frac {} at offset {}", z, exp_s, exp_f, off), format!("{:?} at {}", local, o));
                    }
                }
            }
            Ok(Err(e)) => {
                if !deviated && what == "to_datetime" && has(F_OFF) && suff.date && suff.time && suff.year_groups_determinate && (!has(F_TS) || has(F_SEC) || s % 60 == 0) {
                    acc.violation(&format!("{}:refuses-consistent", what), format!("{}.{}", describe(vals, mask), what), "Ok(the value the fields were derived from)".into(), format!("Err({:?})", e.kind()));
                }
            }
        }
    };
    check_dt(acc, "to_datetime", rd.map(|r| r.map(|d: DateTime<FixedOffset>| (d.naive_local(), d.offset().local_minus_utc()))), None);
    check_dt(acc, "to_datetime_with_timezone(FixedOffset)", rt.map(|r| r.map(|d| (d.naive_local(), d.offset().local_minus_utc()))), Some(off));
    check_dt(acc, "to_datetime_with_timezone(Utc)", ru.map(|r| r.map(|d| (d.naive_utc(), 0))), Some(0));
    // ---- to_naive_date / to_naive_time on the date / time bits alone ----
    if mask & !DATE_MASK == 0 {
        let r = guard(|| p.to_naive_date());
        acc.transitions += 1;
        match r {
            Err(pn) => acc.violation("Parsed::to_naive_date:panic", format!("{}.to_naive_date()", describe(vals, mask)), "Ok or Err".into(), format!("panic: {}", pn)),
            Ok(Ok(d)) => {
                let zz = date_z(d);
                sound(acc, "to_naive_date", vals, mask, (zz, 0, 0), 0, true, false);
                if !deviated && suff.date && suff.year_groups_determinate && zz != z {
                    acc.violation("to_naive_date:other-value", format!("{}.to_naive_date()", describe(vals, mask)), format!("{:?}", mk_date(z)), format!("{:?}", d));
                }
            }
            Ok(Err(e)) => {
                if !deviated && suff.year_groups_determinate {
                    if suff.date {
                        acc.violation("to_naive_date:refuses-consistent", format!("{}.to_naive_date()", describe(vals, mask)), format!("Ok({:?})", mk_date(z)), format!("Err({:?})", e.kind()));
                    } else if e.kind() != ParseErrorKind::NotEnough {
                        acc.violation("to_naive_date:wrong-error", format!("{}.to_naive_date()", describe(vals, mask)), "Err(NotEnough)".into(), format!("Err({:?})", e.kind()));
                    }
                }
            }
        }
    }
    if mask & DATE_MASK == 0 && mask >> 19 == 0 {
        let r = guard(|| p.to_naive_time());
        acc.transitions += 1;
        match r {
            Err(pn) => acc.violation("Parsed::to_naive_time:panic", format!("{}.to_naive_time()", describe(vals, mask)), "Ok or Err".into(), format!("panic: {}", pn)),
            Ok(Ok(t)) => {
                use chrono::Timelike;
                sound(acc, "to_naive_time", vals, mask, (0, t.num_seconds_from_midnight(), t.nanosecond()), 0, false, true);
            }
            Ok(Err(e)) => {
                if !deviated {
                    if suff.time {
                        acc.violation("to_naive_time:refuses-consistent", format!("{}.to_naive_time()", describe(vals, mask)), "Ok".into(), format!("Err({:?})", e.kind()));
                    } else if e.kind() != ParseErrorKind::NotEnough {
                        acc.violation("to_naive_time:wrong-error", format!("{}.to_naive_time()", describe(vals, mask)), "Err(NotEnough)".into(), format!("Err({:?})", e.kind()));
                    }
                }
            }
        }
    }
    let _ = kind_of::<()>;
}


// ---- a zone with a fold, to exercise the disambiguation by the supplied offset ---------------------------
#[derive(Clone, Copy, Debug)]
struct FoldTz;
#[derive(Clone, Copy, Debug, PartialEq)]
struct FoldOff(i32);
impl Offset for FoldOff {
    fn fix(&self) -> FixedOffset {
        FixedOffset::east_opt(self.0).unwrap()
    }
}
const FOLD_AT: i64 = 1_441_490_400; // 2015-09-05T22:00:00Z: +01:00 before, +00:00 after => 22:00..23:00 local occurs twice
impl TimeZone for FoldTz {
    type Offset = FoldOff;
    fn from_offset(_: &FoldOff) -> Self {
        FoldTz
    }
    #[allow(deprecated)]
    fn offset_from_local_date(&self, _: &NaiveDate) -> MappedLocalTime<FoldOff> {
        MappedLocalTime::Single(FoldOff(0))
    }
    fn offset_from_local_datetime(&self, l: &NaiveDateTime) -> MappedLocalTime<FoldOff> {
        let w = l.and_utc().timestamp();
        if w < FOLD_AT {
            MappedLocalTime::Single(FoldOff(3600))
        } else if w < FOLD_AT + 3600 {
            MappedLocalTime::Ambiguous(FoldOff(3600), FoldOff(0))
        } else {
            MappedLocalTime::Single(FoldOff(0))
        }
    }
    #[allow(deprecated)]
    fn offset_from_utc_date(&self, _: &NaiveDate) -> FoldOff {
        FoldOff(0)
    }
    fn offset_from_utc_datetime(&self, u: &NaiveDateTime) -> FoldOff {
        if u.and_utc().timestamp() < FOLD_AT {
            FoldOff(3600)
        } else {
            FoldOff(0)
        }
    }
}

fn fold_resolution(acc: &mut Acc) {
    // wall clocks before, inside and after the fold x supplied offset {absent, first, second, neither} x timestamp {absent, matching}
    let z = days_from_civil(2015, 9, 5);
    for (s, in_fold) in [(21 * 3600 + 1800u32, false), (22 * 3600u32, true), (22 * 3600 + 1800, true), (23 * 3600 - 1, true), (23 * 3600, false)] {
        for off in [None, Some(3600i64), Some(0), Some(7200), Some(-3600)] {
            for with_ts in [false, true] {
                let mut p = Parsed::new();
                let _ = p.set_year(2015);
                let _ = p.set_month(9);
                let _ = p.set_day(5);
                let _ = p.set_hour((s / 3600) as i64);
                let _ = p.set_minute((s / 60 % 60) as i64);
                let _ = p.set_second((s % 60) as i64);
                if let Some(o) = off {
                    let _ = p.set_offset(o);
                }
                // the instants this wall clock can denote in the zone
                let cands: Vec<i64> = if in_fold { vec![3600, 0] } else if (z * 86400 + s as i64) < FOLD_AT { vec![3600] } else { vec![0] };
                let matching: Vec<i64> = cands.iter().cloned().filter(|c| off.map_or(true, |o| o == *c)).collect();
                if with_ts {
                    let Some(c) = matching.first() else { continue };
                    let _ = p.set_timestamp(z * 86400 + s as i64 - c);
                }
                acc.transitions += 1;
                let got = guard(|| p.to_datetime_with_timezone(&FoldTz));
                let call = format!("{:?}.to_datetime_with_timezone(&<zone with a fold 22:00..23:00>)", p);
                match got {
                    Err(pn) => acc.violation("to_datetime_with_timezone:fold:panic", call, "Ok / Err".into(), pn),
                    Ok(Ok(dt)) => {
                        let o = dt.offset().0 as i64;
                        let local_ok = ndt_parts(dt.naive_utc()) == ((z * 86400 + s as i64 - o).div_euclid(86400), (z * 86400 + s as i64 - o).rem_euclid(86400) as u32, 0);
                        if !matching.contains(&o) || !local_ok || (matching.len() > 1 && !with_ts) {
                            acc.violation("to_datetime_with_timezone:fold", call, format!("a result at one of the offsets {:?} (an error if more than one remains)", matching), format!("Ok at offset {} (utc {:?})", o, dt.naive_utc()));
                        } else {
                            acc.hit(RESOLVED);
                        }
                    }
                    Ok(Err(e)) => {
                        if matching.len() == 1 {
                            acc.violation("to_datetime_with_timezone:fold:refuses", call, format!("Ok at offset {}", matching[0]), format!("Err({:?})", e.kind()));
                        } else {
                            acc.hit_nt(REFUSED);
                        }
                    }
                }
            }
        }
    }
}

fn alternatives(i: usize, v: i64) -> Vec<i64> {
    let mut a: Vec<i64> = match i {
        F_YEAR | F_IY => vec![v - 1, v + 1, v - 100, v + 100, 0, -1, 9999, 10000, 1969, 2070, 262142, 262143, -262143, -262144, i32::MAX as i64, i32::MIN as i64, i32::MAX as i64 + 1, (1 << 32) + v],
        // incl. the overflow edge of q*100 and alias classes whose product wraps into the valid year range
        F_YDIV | F_IYDIV => vec![v - 1, v + 1, 0, 19, 20, 99, 100, 2621, 2622, 21_474_836, 21_474_837, 42_949_672, 42_949_673, 42_949_673 + v, i32::MAX as i64, i32::MAX as i64 - 1, i32::MAX as i64 + 1],
        F_YMOD | F_IYMOD => vec![(v + 1) % 100, (v + 99) % 100, 0, 69, 70, 99],
        F_Q => vec![1, 2, 3, 4],
        F_MONTH => vec![v - 1, v + 1, 1, 2, 12],
        F_WSUN | F_WMON => vec![v - 1, v + 1, 0, 1, 52, 53],
        F_IW => vec![v - 1, v + 1, 1, 52, 53],
        F_WD => vec![(v + 1) % 7, (v + 6) % 7, 0, 6],
        F_ORD => vec![v - 1, v + 1, 1, 59, 60, 365, 366],
        F_DAY => vec![v - 1, v + 1, 1, 28, 29, 30, 31],
        F_AMPM => vec![1 - v],
        F_H12 => vec![v - 1, v + 1, 1, 11, 12],
        F_MIN => vec![v - 1, v + 1, 0, 59],
        F_SEC => vec![v - 1, v + 1, 0, 59, 60],
        F_NANO => vec![0, 1, 999_999_999, v + 1],
        F_TS => vec![v - 1, v + 1, v - 60, v + 60, v - 86400, v + 86400, 0, MIN_DAY * 86400, MIN_DAY * 86400 - 1, MIN_DAY * 86400 + 1, (MAX_DAY + 1) * 86400 - 1, (MAX_DAY + 1) * 86400, i64::MAX, i64::MIN, i64::MAX - 1, i64::MIN + 1],
        _ => vec![v - 60, v + 60, 0, 3600, -3600, -v, 86399, -86399, 86400, -86400, i32::MAX as i64, i32::MIN as i64],
    };
    a.retain(|x| *x != v);
    a.sort();
    a.dedup();
    a
}

fn stored_field(p: &Parsed, i: usize) -> Option<i64> {
    match i {
        F_YEAR => p.year().map(|x| x as i64),
        F_YDIV => p.year_div_100().map(|x| x as i64),
        F_YMOD => p.year_mod_100().map(|x| x as i64),
        F_IY => p.isoyear().map(|x| x as i64),
        F_IYDIV => p.isoyear_div_100().map(|x| x as i64),
        F_IYMOD => p.isoyear_mod_100().map(|x| x as i64),
        F_Q => p.quarter().map(|x| x as i64),
        F_MONTH => p.month().map(|x| x as i64),
        F_WSUN => p.week_from_sun().map(|x| x as i64),
        F_WMON => p.week_from_mon().map(|x| x as i64),
        F_IW => p.isoweek().map(|x| x as i64),
        F_WD => p.weekday().map(|w| w.num_days_from_monday() as i64),
        F_ORD => p.ordinal().map(|x| x as i64),
        F_DAY => p.day().map(|x| x as i64),
        F_AMPM => p.hour_div_12().map(|x| x as i64),
        F_H12 => p.hour_mod_12().map(|x| if x == 0 { 12 } else { x as i64 }),
        F_MIN => p.minute().map(|x| x as i64),
        F_SEC => p.second().map(|x| x as i64),
        F_NANO => p.nanosecond().map(|x| x as i64),
        F_TS => p.timestamp(),
        _ => p.offset().map(|x| x as i64),
    }
}

fn setter_histories(acc: &mut Acc) {
    for i in 0..NF {
        let mut vals: Vec<i64> = vec![-1, 0, 1, 2, 4, 5, 6, 7, 11, 12, 13, 23, 24, 31, 32, 52, 53, 54, 59, 60, 61, 99, 100, 365, 366, 367, 999_999_999, 1_000_000_000, 2024, -2024, 86399, 86400];
        vals.extend(lat_i64().into_iter().step_by(3));
        // alias classes of in-domain values under a narrowing cast inside a setter
        for v in [0i64, 1, 4, 12, 31, 53, 59, 60, 366, 999_999_999, 2024] {
            for w in [1i64 << 8, 1 << 16, 1 << 32, 1 << 33, -(1 << 32), 1 << 31, -(1 << 31)] {
                vals.push(v + w);
            }
        }
        vals.sort();
        vals.dedup();
        for &a in &vals {
            let mut p = Parsed::new();
            let ra = set_field(&mut p, i, a);
            acc.transitions += 1;
            // the documented domain of every field
            let in_domain = match i {
                F_YEAR | F_IY | F_OFF => a >= i32::MIN as i64 && a <= i32::MAX as i64,
                F_YDIV | F_IYDIV => (0..=i32::MAX as i64).contains(&a),
                F_YMOD | F_IYMOD => (0..=99).contains(&a),
                F_Q => (1..=4).contains(&a),
                F_MONTH => (1..=12).contains(&a),
                F_WSUN | F_WMON => (0..=53).contains(&a),
                F_IW => (1..=53).contains(&a),
                F_WD => (0..=6).contains(&a),
                F_ORD => (1..=366).contains(&a),
                F_DAY => (1..=31).contains(&a),
                F_AMPM => a == 0 || a == 1,
                F_H12 => (1..=12).contains(&a),
                F_MIN => (0..=59).contains(&a),
                F_SEC => (0..=60).contains(&a),
                F_NANO => (0..=999_999_999).contains(&a),
                _ => true,
            };
            if ra.is_ok() != in_domain {
                acc.violation(&format!("Parsed::set_{}:domain", NAMES[i]), format!("Parsed::new().set_{}({})", NAMES[i], a), if in_domain { "Ok".into() } else { "Err(OutOfRange)".to_string() }, format!("{:?}", ra));
                continue;
            }
            if ra.is_ok() {
                // the stored value is the supplied one
                let stored = stored_field(&p, i);
                if stored != Some(a) {
                    acc.violation(&format!("Parsed::set_{}:stored", NAMES[i]), format!("Parsed::new().set_{}({}) then the accessor", NAMES[i], a), format!("Some({})", a), format!("{:?}", stored));
                }
            }
            if ra.is_err() {
                acc.hit_nt(SET_OOR);
                // a rejected value is not stored: the set of supplied fields is still empty
                acc.transitions += 1;
                if p != Parsed::new() {
                    acc.violation(&format!("Parsed::set_{}:rejected-but-stored", NAMES[i]), format!("Parsed::new().set_{}({}) -> {:?}, then the fields", NAMES[i], a, ra), "no field set".into(), format!("{:?}", p));
                }
                continue;
            }
            for &b in &vals {
                let mut q = p.clone();
                let rb = set_field(&mut q, i, b);
                let mut fresh = Parsed::new();
                let b_valid = set_field(&mut fresh, i, b).is_ok();
                acc.transitions += 1;
                // hour12: 12 and 0 are not both valid inputs; equality is on the denoted value = same input here
                let want_ok = b_valid && a == b;
                if rb.is_ok() != want_ok {
                    acc.violation(&format!("Parsed::set_{}:twice", NAMES[i]), format!("Parsed::new().set_{}({}) then set_{}({})", NAMES[i], a, NAMES[i], b), if want_ok { "Ok".into() } else { "Err".to_string() }, format!("{:?}", rb));
                } else if want_ok {
                    acc.hit(SET_EQ);
                } else {
                    acc.hit_nt(SET_NE);
                }
                // accepted or refused, the field still holds the first value and nothing else appeared
                if q != p {
                    acc.violation(&format!("Parsed::set_{}:twice-changes-state", NAMES[i]), format!("Parsed::new().set_{}({}) then set_{}({}) -> {:?}", NAMES[i], a, NAMES[i], b, rb), format!("fields as after the first call (value {})", a), format!("{:?}", stored_field(&q, i)));
                }
            }
        }
    }
    // set_hour outside 0..=23 (incl. values that alias an hour under a narrowing cast) is refused and stores nothing
    for h in [-1i64, 24, 25, 36, 48, 255, 256, 256 + 5, 65536 + 13, (1 << 32) + 5, (1 << 32) + 23, -(1 << 32) + 7, i64::MAX, i64::MIN, u32::MAX as i64, u32::MAX as i64 + 1] {
        let mut p = Parsed::new();
        let r = p.set_hour(h);
        acc.transitions += 1;
        if r.is_ok() || p != Parsed::new() {
            acc.violation("Parsed::set_hour:domain", format!("Parsed::new().set_hour({})", h), "Err(OutOfRange), nothing stored".into(), format!("{:?}, {:?}", r, p));
        } else {
            acc.hit_nt(SET_OOR);
        }
    }
    // set_hour sets both clock fields: consistent with ampm + hour12
    for h in 0..24i64 {
        let mut p = Parsed::new();
        let _ = p.set_hour(h);
        acc.transitions += 2;
        if p.set_ampm(h >= 12).is_err() || p.set_hour12(if h % 12 == 0 { 12 } else { h % 12 }).is_err() {
            acc.violation("Parsed::set_hour", format!("set_hour({}) then the matching set_ampm / set_hour12", h), "Ok".into(), "Err".into());
        }
        let mut p = Parsed::new();
        let _ = p.set_hour(h);
        if p.set_ampm(h < 12).is_ok() {
            acc.violation("Parsed::set_hour", format!("set_hour({}) then the opposite set_ampm", h), "Err".into(), "Ok".into());
        }
    }
}

fn main() {
    install_panic_hook();
    let args = parse_args();
    let start = Instant::now();
    if let Err(e) = selftest() {
        machinery(&format!("RefCal self-test failed: {}", e));
    }
    let spec = Spec {
        property: "C14",
        classes: CLASSES,
        required: &["resolved", "not_enough", "contradiction_refused", "ok_other_value_sound", "via_timestamp", "leap_second", "pivot_year", "indeterminate_year_group", "setter_twice_equal", "setter_twice_unequal", "setter_out_of_range", "completeness_checked"],
        rule: "base values (date-times chosen so that every derived field takes a boundary value, x offsets); for each base value ALL 2^21 subsets of the 21 fields are supplied through the set_* methods with the values derived from it (deviation 0) and resolved through to_naive_datetime_with_offset / to_datetime / to_datetime_with_timezone (FixedOffset, Utc) (+ to_naive_date / to_naive_time on the date-only / time-only subsets); deviation 1: in every subset of size <= k (and every co-singleton) one supplied field is replaced by each of its other boundary values; deviation 2 on small subsets; soundness (any Ok agrees with every supplied field, recomputed by RefFields) is checked on every resolution, completeness (Ok(base value) for determinate year groups + a documented sufficient combination) and the error classification on deviation 0; setter histories: every setter twice over all pairs of a value lattice; non-trivial = refusal, resolution via timestamp, leap second, pivot year, other-but-sound value",
        assumptions: &["documented defaults: omitted second / nanosecond are 0; a lone two-digit year is read with the 1970..=2069 pivot; a supplied timestamp with an omitted second is only expected to resolve when the base second is 0", "which of Impossible / OutOfRange is returned for a contradiction is not judged"],
    };
    let tier = args.tier;
    // base values
    let mut bases: Vec<(i64, u32, u32, i32)> = vec![];
    let dts: Vec<(i64, u32, u32)> = vec![
        (days_from_civil(2015, 9, 5), 23 * 3600 + 56 * 60 + 4, 12_345_678),
        (days_from_civil(2016, 12, 31), 86399, 1_500_000_000),
        (days_from_civil(2021, 1, 3), 0, 0),
        (days_from_civil(2020, 12, 31), 12 * 3600, 0),
        (days_from_civil(2018, 12, 31), 11 * 3600 + 59 * 60 + 59, 999_999_999),
        (days_from_civil(2000, 2, 29), 3661, 1),
        (days_from_civil(1970, 1, 1), 0, 0),
        (days_from_civil(1969, 12, 31), 86399, 0),
        (days_from_civil(2069, 12, 31), 43200, 0),
        (days_from_civil(2070, 1, 1), 46800, 0),
        (days_from_civil(1999, 12, 31), 86399, 1_000_000_000),
        (days_from_civil(99, 1, 1), 3600, 0),
        (days_from_civil(100, 4, 1), 7200, 0),
        (days_from_civil(0, 1, 1), 60, 0),
        (days_from_civil(0, 1, 3), 59, 0),
        (days_from_civil(0, 12, 31), 86399, 1_000_000_000),
        (days_from_civil(1, 1, 1), 0, 0),
        (MIN_DAY, 0, 0),
        (MAX_DAY, 86399, 999_999_999),
        (days_from_civil(-1, 12, 31), 120, 5),
        (days_from_civil(9999, 12, 31), 86340, 0),
        (days_from_civil(10000, 1, 1), 1, 0),
        (days_from_civil(2024, 12, 30), 13 * 3600, 0),
        (days_from_civil(2017, 1, 1), 43200, 0),
        (days_from_civil(2012, 7, 1), 0, 500_000_000),
        (days_from_civil(2023, 10, 1), 9 * 3600, 0),
        (days_from_civil(-262143, 1, 2), 5, 0),
        (days_from_civil(262142, 12, 30), 5, 0),
        (days_from_civil(2004, 12, 31), 86399, 0),
    ];
    let offs = [0i32, 3600, -34200, 86399];
    let nb = dts.len();
    for (i, &(z, s, f)) in dts.iter().take(nb).enumerate() {
        let no = if tier == Tier::Thorough { 4 } else { 1 };
        for k in 0..no {
            let mut o = offs[(i + k) % 4];
            // the base value must itself be a representable zone-aware date-time
            let utc_day = z + (s as i64 - o as i64).div_euclid(86400);
            if !day_in_range(utc_day) {
                o = -o;
            }
            bases.push((z, s, f, o));
        }
    }
    // units: base x 64 chunks of the subset space
    const CH: u64 = 64;
    let nunits = bases.len() as u64 * CH + 1;
    let dev1_max = if tier == Tier::Thorough { 6 } else { 4 };
    let dev2_max = if tier == Tier::Thorough { 4 } else { 3 };
    let only = replay_unit(&args);
    let acc = explore_units(nunits, CLASSES.len(), only, |u, acc| {
        if u == nunits - 1 {
            setter_histories(acc);
            fold_resolution(acc);
            acc.traces += 1;
            return;
        }
        let base = bases[(u / CH) as usize];
        let vals = fields_of(base.0, base.1, base.2, base.3);
        let avail: u32 = (0..NF).filter(|i| vals[*i].is_some()).fold(0, |m, i| m | 1 << i);
        let per = (1u64 << NF) / CH;
        let lo = (u % CH) * per;
        for mask in lo..lo + per {
            let mask = mask as u32;
            if mask & !avail != 0 {
                continue; // fields this base value cannot express (century of a negative year)
            }
            acc.states += 1;
            resolve(acc, base, &vals, mask, false);
            let n = mask.count_ones();
            if n >= 1 && (n <= dev1_max || n >= avail.count_ones() - 1) {
                for i in 0..NF {
                    if mask >> i & 1 == 0 {
                        continue;
                    }
                    for a in alternatives(i, vals[i].unwrap()) {
                        let mut v2 = vals;
                        v2[i] = Some(a);
                        resolve(acc, base, &v2, mask, true);
                        if n <= dev2_max {
                            for j in (i + 1)..NF {
                                if mask >> j & 1 == 0 {
                                    continue;
                                }
                                for b in alternatives(j, vals[j].unwrap()).into_iter().take(3) {
                                    let mut v3 = v2;
                                    v3[j] = Some(b);
                                    resolve(acc, base, &v3, mask, true);
                                }
                            }
                        }
                    }
                }
            }
        }
        acc.traces += 1;
        if u % 97 == 0 {
            acc.sample(|| format!("base {:?} offset {}: subsets {}..{} of the 21 fields, e.g. {}", mk_ndt(base.0, base.1, base.2), base.3, lo, lo + per, describe(&vals, (lo as u32 | 0b1010010000001) & avail)));
        }
    });
    let extra = Extra {
        bounds: json!({"base_values": bases.len(), "fields": NF, "subsets_per_base": 1u64 << NF, "deviation1_on_subsets_of_size_up_to": dev1_max, "deviation2_on_subsets_of_size_up_to": dev2_max}),
        exhaustive: false,
        more: vec![("exhaustive_over".into(), json!("all 2^21 field subsets of every base value (deviation 0)"))],
    };
    finish(&spec, &args, start, acc, extra);
}
