//! C17 — rounding and truncation land on the right multiple. Shape P + a complete small scope.
use chrono::{DateTime, DurationRound, FixedOffset, NaiveDateTime, NaiveTime, SubsecRound, TimeDelta, TimeZone, Timelike, Utc};
use chrono_mc::core::*;
use chrono_mc::lattice::*;
use chrono_mc::refcal::*;
use chrono_mc::refleap::ref_add;
use serde_json::json;
use std::time::Instant;

const CLASSES: &[&str] = &["multiple_unchanged", "moved_down", "moved_up", "tie_up", "negative_stamp", "err_span", "err_stamp", "subsec_carry", "subsec_unchanged", "subsec_leap", "offset_wall_basis", "idempotent"];
const UNCH: usize = 0;
const DOWN: usize = 1;
const UP: usize = 2;
const TIE: usize = 3;
const NEGST: usize = 4;
const ERR_SPAN: usize = 5;
const ERR_STAMP: usize = 6;
const SS_CARRY: usize = 7;
const SS_UNCH: usize = 8;
const SS_LEAP: usize = 9;
const OFFWALL: usize = 10;
const IDEM: usize = 11;

fn fits64(x: i128) -> bool {
    x >= i64::MIN as i128 && x <= i64::MAX as i128
}

#[derive(Clone, Copy, Debug, PartialEq)]
enum Op {
    Trunc,
    Round,
    Up,
}

/// reference: Ok(new wall instant) or Err
fn ref_op(op: Op, stamp: i128, span: i128) -> Result<i128, ()> {
    if span <= 0 || !fits64(span) || !fits64(stamp) {
        return Err(());
    }
    let rem = stamp.rem_euclid(span);
    let down = stamp - rem;
    let up = if rem == 0 { stamp } else { down + span };
    Ok(match op {
        Op::Trunc => down,
        Op::Up => up,
        Op::Round => {
            if rem == 0 {
                stamp
            } else if span - rem <= rem {
                up
            } else {
                down
            }
        }
    })
}

fn span_delta(span: i128) -> Option<TimeDelta> {
    if span.abs() <= MAX_DELTA {
        Some(mk_delta(span))
    } else {
        None
    }
}

fn one_ndt(acc: &mut Acc, wall: i128, span: i128) {
    let Some(sd) = span_delta(span) else { return };
    let t = mk_ndt_inst(wall);
    for op in [Op::Trunc, Op::Round, Op::Up] {
        let want = ref_op(op, wall, span);
        if let Ok(w) = want {
            if w < MIN_INST || w > MAX_INST {
                acc.skip("rounded result beyond NaiveDateTime range (operator panic, documented)");
                continue;
            }
        }
        let got = guard(|| match op {
            Op::Trunc => t.duration_trunc(sd),
            Op::Round => t.duration_round(sd),
            Op::Up => t.duration_round_up(sd),
        });
        acc.transitions += 1;
        match (&got, want) {
            (Ok(Ok(r)), Ok(w)) if ndt_inst(*r) == w => {
                let moved = w - wall;
                if moved == 0 {
                    acc.hit(UNCH)
                } else if moved < 0 {
                    acc.hit_nt(DOWN)
                } else {
                    acc.hit_nt(UP)
                }
                if op == Op::Round && moved > 0 && 2 * moved == span {
                    acc.hit_nt(TIE);
                }
                if wall < 0 {
                    acc.hit(NEGST);
                }
                // less than one span away; a multiple; idempotent
                acc.transitions += 1;
                if moved.abs() >= span || w.rem_euclid(span) != 0 {
                    acc.violation("DurationRound:not-a-multiple", format!("{:?}.{:?}(span {} ns)", t, op, span), "a multiple less than one span away".into(), format!("{:?}", r));
                }
                let again = guard(|| match op {
                    Op::Trunc => r.duration_trunc(sd),
                    Op::Round => r.duration_round(sd),
                    Op::Up => r.duration_round_up(sd),
                });
                acc.transitions += 1;
                match again {
                    Ok(Ok(r2)) if r2 == *r => acc.hit(IDEM),
                    Ok(Err(_)) if !fits64(w) => {} // the rounded value may leave the 64-bit window
                    other => acc.violation("DurationRound:idempotence", format!("{:?}.{:?}(span {} ns) applied twice", t, op, span), format!("{:?}", r), format!("{:?}", other)),
                }
            }
            (Ok(Err(_)), Err(())) => {
                if span <= 0 || !fits64(span) {
                    acc.hit_nt(ERR_SPAN)
                } else {
                    acc.hit_nt(ERR_STAMP)
                }
            }
            (g, w) => acc.violation(&format!("NaiveDateTime::duration_{:?}", op), format!("NaiveDateTime({:?}).{:?}(TimeDelta({} ns))", t, op, span), match w {
                Ok(w) => format!("Ok({:?})", mk_ndt_inst(w)),
                Err(()) => "Err".into(),
            }, format!("{:?}", g)),
        }
    }
}

fn one_dt(acc: &mut Acc, utc: i128, off: i32, span: i128) {
    let Some(sd) = span_delta(span) else { return };
    let fo = FixedOffset::east_opt(off).unwrap();
    let dt: DateTime<FixedOffset> = fo.from_utc_datetime(&mk_ndt_inst(utc));
    let wall = utc + off as i128 * NS;
    for op in [Op::Trunc, Op::Round, Op::Up] {
        let want = ref_op(op, wall, span);
        if let Ok(w) = want {
            let u = w - off as i128 * NS;
            if u < MIN_INST || u > MAX_INST {
                acc.skip("rounded result beyond the range (operator panic, documented)");
                continue;
            }
        }
        let got = guard(|| match op {
            Op::Trunc => dt.duration_trunc(sd),
            Op::Round => dt.duration_round(sd),
            Op::Up => dt.duration_round_up(sd),
        });
        acc.transitions += 1;
        match (&got, want) {
            (Ok(Ok(r)), Ok(w)) if ndt_inst(r.naive_utc()) == w - off as i128 * NS && r.offset().local_minus_utc() == off => {
                if off != 0 && (utc.rem_euclid(span) != wall.rem_euclid(span)) {
                    acc.hit_nt(OFFWALL);
                }
            }
            (Ok(Err(_)), Err(())) => acc.hit_nt(ERR_STAMP),
            (g, w) => acc.violation(&format!("DateTime::duration_{:?}", op), format!("DateTime({:?}).{:?}(TimeDelta({} ns))", dt, op, span), match w {
                Ok(w) => format!("Ok(wall clock {:?})", mk_ndt_inst(w)),
                Err(()) => "Err".into(),
            }, format!("{:?}", g)),
        }
    }
}

fn subsec(acc: &mut Acc, digits: u16, nanos: &[u32]) {
    let span: u32 = 10u32.pow(9 - (digits.min(9) as u32));
    for &n in nanos {
        for &(s, z) in &[(3600u32 + 5 * 60 + 13, 16000i64), (86399, 0), (86399, MAX_DAY - 1), (59, MIN_DAY)] {
            let frac_in = n % 1_000_000_000;
            let leap = n >= 1_000_000_000;
            if leap && s % 60 != 59 {
                continue;
            }
            let t = mk_time(s, n);
            let down = frac_in % span;
            let (r_delta, t_delta): (i128, i128) = {
                let rd = if down == 0 {
                    0
                } else if span - down <= down {
                    (span - down) as i128
                } else {
                    -(down as i128)
                };
                (rd, -(down as i128))
            };
            let (wr, _, _) = ref_add(s, n, r_delta);
            let (wt, _, _) = ref_add(s, n, t_delta);
            let gr = t.round_subsecs(digits);
            let gt = t.trunc_subsecs(digits);
            acc.transitions += 2;
            let p = |x: NaiveTime| (x.num_seconds_from_midnight(), x.nanosecond());
            if p(gr) != wr {
                acc.violation("NaiveTime::round_subsecs", format!("NaiveTime({:?}).round_subsecs({})", t, digits), format!("{:?}", wr), format!("{:?}", gr));
            }
            if p(gt) != wt {
                acc.violation("NaiveTime::trunc_subsecs", format!("NaiveTime({:?}).trunc_subsecs({})", t, digits), format!("{:?}", wt), format!("{:?}", gt));
            }
            if r_delta > 0 && wr.1 % 1_000_000_000 == 0 {
                acc.hit_nt(SS_CARRY);
            }
            if r_delta == 0 {
                acc.hit(SS_UNCH);
            }
            if leap {
                acc.hit_nt(SS_LEAP);
            }
            // NaiveDateTime and DateTime<Utc>: same time of day, date carried
            let ndt = mk_date(z).and_time(t);
            let carry_r = ref_add(s, n, r_delta).1 / 86400;
            if z + carry_r > MAX_DAY {
                acc.skip("round_subsecs beyond NaiveDateTime::MAX (operator panic, documented)");
                continue;
            }
            let gr2 = ndt.round_subsecs(digits);
            let gt2 = ndt.trunc_subsecs(digits);
            acc.transitions += 4;
            if ndt_parts(gr2) != (z + carry_r, wr.0, wr.1) || ndt_parts(gt2) != (z, wt.0, wt.1) {
                acc.violation("NaiveDateTime::round/trunc_subsecs", format!("NaiveDateTime({:?}).round_subsecs/trunc_subsecs({})", ndt, digits), format!("{:?} / {:?}", (z + carry_r, wr), (z, wt)), format!("{:?} / {:?}", gr2, gt2));
            }
            let dt: DateTime<Utc> = ndt.and_utc();
            if dt.round_subsecs(digits).naive_utc() != gr2 || dt.trunc_subsecs(digits).naive_utc() != gt2 {
                acc.violation("DateTime::round/trunc_subsecs", format!("DateTime({:?}).round_subsecs/trunc_subsecs({})", dt, digits), format!("{:?} / {:?}", gr2, gt2), format!("{:?} / {:?}", dt.round_subsecs(digits), dt.trunc_subsecs(digits)));
            }
        }
    }
}

fn main() {
    install_panic_hook();
    let args = parse_args();
    let start = Instant::now();
    if let Err(e) = selftest() {
        machinery(&format!("RefCal self-test failed: {}", e));
    }
    let spec = Spec {
        property: "C17",
        classes: CLASSES,
        required: &["multiple_unchanged", "moved_down", "moved_up", "tie_up", "negative_stamp", "err_span", "err_stamp", "subsec_carry", "subsec_unchanged", "subsec_leap", "offset_wall_basis", "idempotent"],
        rule: "(1) complete small scope: every wall-clock stamp in [-60,60] ns and [+-1e9-60, +-1e9+60] x every span 1..=40 ns x {trunc, round, round_up}; (2) boundary dates (inside and outside the 64-bit nanosecond window) x boundary times x span alphabet (1,2,3,7,10^k,60 s,1 h,1 d,7 d,1e9+1,i64::MAX neighbours, 0, negative, not expressible in ns) for NaiveDateTime and DateTime<FixedOffset> x boundary offsets on the wall-clock basis; idempotence = second application; (3) round_subsecs/trunc_subsecs for all 65,536 digit counts x nanosecond lattice (incl. leap) on NaiveTime, NaiveDateTime, DateTime<Utc>, judged with the leap-second reference; non-trivial = moved, tie, error, carry into the next second, leap operand, offset changing the remainder",
        assumptions: &["which RoundingError variant is returned is not judged (the statement fixes when failure is reported)", "results that would leave the date range go through the documented panicking operators and are skipped (counted under 'skipped')", "leap-second operands are judged for sub-second rounding only"],
    };
    let tier = args.tier;
    let mut spans: Vec<i128> = vec![1, 2, 3, 7, 10, 1000, 1_000_000, NS, 7 * NS, 60 * NS, 3600 * NS, DAY_NS, 7 * DAY_NS, NS + 1, 999_999_937, 0, -1, -NS];
    let im = i64::MAX as i128;
    spans.extend([im, im - 1, im / 2, im / 2 + 1, im / 3, im + 1, im + 2, 2 * im, -im, -im - 1, MAX_DELTA, -MAX_DELTA, MAX_DELTA - 1]);
    let dates = b_dates(tier);
    let times = b_times(false);
    let offs = b_offsets_small();
    let mut nanos: Vec<u32> = vec![0, 1, 4, 5, 9, 10, 49, 50, 499, 500, 84_660_684, 123_456_789, 449_999_999, 450_000_000, 499_999_999, 500_000_000, 500_000_001, 949_999_999, 950_000_000, 999_999_499, 999_999_500, 999_999_994, 999_999_995, 999_999_999];
    nanos.extend([1_000_000_000, 1_000_000_001, 1_499_999_999, 1_500_000_000, 1_999_999_999, 1_999_999_995, 1_250_000_000]);
    let nd = dates.len() as u64;
    let only = replay_unit(&args);
    // A fixed prologue on this thread, before any worker runs: the digit counts in ascending order, smallest first, then
    // descending, so that a table or cache built lazily from "the first call" is built from the smallest input and
    // every later call has to go beyond it (the parallel exploration would otherwise decide the first call by a race).
    let mut pro = Acc::new(CLASSES.len(), 0);
    if only.is_none() {
        for d in (0..=12u16).chain((0..=12u16).rev()).chain([3, 6, 3, 9, 0, 256, 1]) {
            subsec(&mut pro, d, &nanos);
        }
    }
    let acc = explore_units(nd + 1 + 256, CLASSES.len(), only, |u, acc| {
        if u < nd {
            let z = dates[u as usize];
            let full = true;
            for &(s, n) in &times {
                if !full && !(s == 0 || s == 86399 || s == 43200) {
                    continue;
                }
                let wall = z as i128 * DAY_NS + s as i128 * NS + n as i128;
                acc.states += 1;
                for &sp in &spans {
                    one_ndt(acc, wall, sp);
                }
                if n == 0 || n == 999_999_999 {
                    for &o in &offs {
                        for &sp in &[NS, 60 * NS, 3600 * NS, DAY_NS, 7, im, 0] {
                            one_dt(acc, wall, o, sp);
                        }
                    }
                }
            }
            acc.traces += 1;
            if u % 301 == 0 {
                acc.sample(|| format!("date {:?} x {} times x {} spans x (trunc, round, round_up) + idempotence; DateTime at {} offsets", mk_date(z), times.len(), spans.len(), offs.len()));
            }
        } else if u == nd {
            // complete small scope + the window ends
            let mut stamps: Vec<i128> = (-60..=60).collect();
            for c in [NS, -NS] {
                stamps.extend((c - 60)..=(c + 60));
            }
            for s in &stamps {
                for sp in 1..=40i128 {
                    one_ndt(acc, *s, sp);
                }
                acc.states += 1;
            }
            for e in [im, im - 1, im - 2, -im - 1, -im, -im + 1, im + 1, -im - 2, im / 2, -im / 2] {
                for &sp in &spans {
                    one_ndt(acc, e, sp);
                }
                for sp in 1..=7i128 {
                    one_ndt(acc, e, sp);
                }
            }
            acc.traces += 1;
            acc.sample(|| "small scope: stamps -60..=60 ns x spans 1..=40 ns x 3 operations, e.g. stamp -7 span 3: trunc -9, round -6, up -6".to_string());
        } else {
            let k = (u - nd - 1) as u16;
            for d in (k as u32 * 256)..((k as u32 + 1) * 256) {
                subsec(acc, d as u16, &nanos);
            }
            acc.states += 256;
            acc.traces += 1;
        }
    });
    let _ = (NaiveDateTime::MIN, Timelike::hour(&mk_time(0, 0)));
    let extra = Extra {
        bounds: json!({"small_scope": {"stamps": 363, "spans": 40, "ops": 3}, "boundary_dates": dates.len(), "times": times.len(), "spans": spans.len(), "offsets": offs.len(), "digit_counts": 65536, "nanosecond_lattice": nanos.len()}),
        exhaustive: false,
        more: vec![("exhaustive_over".into(), json!("the small scope (all stamps x all spans x all operations) and all 65,536 digit counts"))],
    };
    let mut acc = acc;
    acc.merge(pro);
    finish(&spec, &args, start, acc, extra);
}
