//! C13 — parsing with a format string inverts formatting with it. Shape P.
use chrono::{DateTime, FixedOffset, NaiveDate, NaiveDateTime, NaiveTime, TimeZone};
use chrono_mc::core::*;
use chrono_mc::lattice::*;
use chrono_mc::refcal::*;
use serde_json::json;
use std::fmt::Write as _;
use std::time::Instant;

const CLASSES: &[&str] = &["roundtrip", "signed_year", "five_digit_year", "leap_second", "truncated_precision", "twelve_hour", "case_perturbed", "ws_perturbed", "pivot_year", "timestamp_form", "negative_timestamp", "permissive_offset", "out_of_domain_skipped"];
const RT: usize = 0;
const SIGNED: usize = 1;
const FIVE: usize = 2;
const LEAP: usize = 3;
const TRUNC: usize = 4;
const H12: usize = 5;
const CASE: usize = 6;
const WS: usize = 7;
const PIVOT: usize = 8;
const TSFORM: usize = 9;
const NEGTS: usize = 10;
const PERM: usize = 11;
const SKIPPED: usize = 12;

#[derive(Clone, Copy, PartialEq)]
enum Dom {
    Any,
    /// two-digit year read with the 1970..=2069 pivot
    Pivot,
    /// two-digit ISO year with the pivot
    IsoPivot,
    /// %C%y can only express 0..=9999
    FourDigit,
}
struct DateForm {
    fmt: &'static str,
    dom: Dom,
    /// the format contains literal letters (no case perturbation of the text)
    letters: bool,
}
const DATE_FORMS: &[DateForm] = &[
    DateForm { fmt: "%Y-%m-%d", dom: Dom::Any, letters: false },
    DateForm { fmt: "%Y-%-m-%-d", dom: Dom::Any, letters: false },
    DateForm { fmt: "%_Y-%_m-%_d", dom: Dom::Any, letters: false },
    DateForm { fmt: "%0Y/%0m/%0d", dom: Dom::Any, letters: false },
    DateForm { fmt: "%-Y %-m %-d", dom: Dom::Any, letters: false },
    DateForm { fmt: "%Y %j", dom: Dom::Any, letters: false },
    DateForm { fmt: "%Y-%-j", dom: Dom::Any, letters: false },
    DateForm { fmt: "%_j %Y", dom: Dom::Any, letters: false },
    DateForm { fmt: "%G-W%V-%u", dom: Dom::Any, letters: true },
    DateForm { fmt: "%G %-V %u", dom: Dom::Any, letters: false },
    DateForm { fmt: "%G %_V %a", dom: Dom::Any, letters: false },
    DateForm { fmt: "%Y %U %w", dom: Dom::Any, letters: false },
    DateForm { fmt: "%Y %-U %A", dom: Dom::Any, letters: false },
    DateForm { fmt: "%Y %W %a", dom: Dom::Any, letters: false },
    DateForm { fmt: "%Y %_W %u", dom: Dom::Any, letters: false },
    DateForm { fmt: "%C%y %m %d", dom: Dom::FourDigit, letters: false },
    DateForm { fmt: "%C %y-%m-%d", dom: Dom::FourDigit, letters: false },
    DateForm { fmt: "%C%y %j", dom: Dom::FourDigit, letters: false },
    DateForm { fmt: "%C%y %U %w", dom: Dom::FourDigit, letters: false },
    DateForm { fmt: "%C%y-W%W-%u", dom: Dom::FourDigit, letters: true },
    DateForm { fmt: "%-C %-y %-j", dom: Dom::FourDigit, letters: false },
    DateForm { fmt: "%d %b %Y", dom: Dom::Any, letters: false },
    DateForm { fmt: "%-d %h %Y", dom: Dom::Any, letters: false },
    DateForm { fmt: "%A %e %B %Y", dom: Dom::Any, letters: false },
    DateForm { fmt: "%B %-d, %Y", dom: Dom::Any, letters: false },
    DateForm { fmt: "%a, %d %b %Y", dom: Dom::Any, letters: false },
    DateForm { fmt: "%F", dom: Dom::Any, letters: false },
    DateForm { fmt: "%D", dom: Dom::Pivot, letters: false },
    DateForm { fmt: "%x", dom: Dom::Pivot, letters: false },
    DateForm { fmt: "%y-%m-%d", dom: Dom::Pivot, letters: false },
    DateForm { fmt: "%-y %b %e", dom: Dom::Pivot, letters: false },
    DateForm { fmt: "%g-W%V-%u", dom: Dom::IsoPivot, letters: true },
    DateForm { fmt: "%v", dom: Dom::Any, letters: false },
    DateForm { fmt: "%Y %q %m %d", dom: Dom::Any, letters: false },
    DateForm { fmt: "%Y-%m-%d (%a, week %V of %G; Q%q)", dom: Dom::Any, letters: true },
];

#[derive(Clone, Copy, PartialEq)]
enum Prec {
    Minute,
    Second,
    Milli,
    Micro,
    Nano,
}
struct TimeForm {
    fmt: &'static str,
    prec: Prec,
    h12: bool,
    letters: bool,
}
const TIME_FORMS: &[TimeForm] = &[
    TimeForm { fmt: "%H:%M:%S", prec: Prec::Second, h12: false, letters: false },
    TimeForm { fmt: "%T", prec: Prec::Second, h12: false, letters: false },
    TimeForm { fmt: "%X", prec: Prec::Second, h12: false, letters: false },
    TimeForm { fmt: "%R", prec: Prec::Minute, h12: false, letters: false },
    TimeForm { fmt: "%k:%M:%S", prec: Prec::Second, h12: false, letters: false },
    TimeForm { fmt: "%-H:%-M:%-S", prec: Prec::Second, h12: false, letters: false },
    TimeForm { fmt: "%_H %_M %_S", prec: Prec::Second, h12: false, letters: false },
    TimeForm { fmt: "%H%M%S", prec: Prec::Second, h12: false, letters: false },
    TimeForm { fmt: "%I:%M:%S %p", prec: Prec::Second, h12: true, letters: false },
    TimeForm { fmt: "%l:%M %P", prec: Prec::Minute, h12: true, letters: false },
    TimeForm { fmt: "%-I.%M.%S%P", prec: Prec::Second, h12: true, letters: false },
    TimeForm { fmt: "%r", prec: Prec::Second, h12: true, letters: false },
    TimeForm { fmt: "%H:%M:%S%.f", prec: Prec::Nano, h12: false, letters: false },
    TimeForm { fmt: "%H:%M:%S%.3f", prec: Prec::Milli, h12: false, letters: false },
    TimeForm { fmt: "%H:%M:%S%.6f", prec: Prec::Micro, h12: false, letters: false },
    TimeForm { fmt: "%H:%M:%S%.9f", prec: Prec::Nano, h12: false, letters: false },
    TimeForm { fmt: "%H%M%S %3f", prec: Prec::Milli, h12: false, letters: false },
    TimeForm { fmt: "%H%M%S.%6f", prec: Prec::Micro, h12: false, letters: false },
    TimeForm { fmt: "%H%M%S%9f", prec: Prec::Nano, h12: false, letters: false },
    TimeForm { fmt: "%H:%M:%S %f", prec: Prec::Nano, h12: false, letters: false },
    TimeForm { fmt: "%Hh%Mm%Ss %-fns", prec: Prec::Nano, h12: false, letters: true },
];

/// text appended for the parse_and_remainder forms: no digit, sign, colon, letter or white space that a trailing field could swallow
const TAIL: &str = "\u{e9}|rest 9";

fn expect_time(s: u32, f: u32, p: Prec) -> (u32, u32) {
    let leap = if f >= 1_000_000_000 { 1_000_000_000 } else { 0 };
    let fr = f % 1_000_000_000;
    match p {
        Prec::Minute => (s - s % 60, 0),
        Prec::Second => (s, leap),
        Prec::Milli => (s, leap + fr / 1_000_000 * 1_000_000),
        Prec::Micro => (s, leap + fr / 1000 * 1000),
        Prec::Nano => (s, f),
    }
}

fn date_in_dom(dom: Dom, z: i64) -> bool {
    let (y, _, _) = civil_from_days(z);
    let (iy, _) = iso_week_of(z);
    match dom {
        Dom::Any => true,
        Dom::Pivot => (1970..=2069).contains(&y),
        Dom::IsoPivot => (1970..=2069).contains(&iy),
        Dom::FourDigit => (0..=9999).contains(&y),
    }
}

/// text perturbations that the statement grants: names in any letter case, surplus white space where there is white space
fn perturb(text: &str, letters: bool, out: &mut Vec<(String, usize)>) {
    out.clear();
    if !letters && text.bytes().any(|c| c.is_ascii_alphabetic()) {
        out.push((text.to_ascii_uppercase(), CASE));
        out.push((text.to_ascii_lowercase(), CASE));
        out.push((text.chars().enumerate().map(|(i, c)| if i % 2 == 0 { c.to_ascii_lowercase() } else { c.to_ascii_uppercase() }).collect(), CASE));
    }
    if text.contains(' ') {
        out.push((text.replace(' ', "  "), WS));
        out.push((text.replace(' ', "\t"), WS));
        out.push((text.replace(' ', " \n "), WS));
    }
}

fn run_date(acc: &mut Acc, form: &DateForm, z: i64, buf: &mut String, pert: &mut Vec<(String, usize)>) {
    if !date_in_dom(form.dom, z) {
        acc.hit(SKIPPED);
        return;
    }
    let d = mk_date(z);
    buf.clear();
    if write!(buf, "{}", d.format(form.fmt)).is_err() {
        acc.violation("format:error", format!("{:?}.format({:?})", d, form.fmt), "a rendering".into(), "Err".into());
        return;
    }
    acc.transitions += 1;
    match NaiveDate::parse_from_str(buf, form.fmt) {
        Ok(p) if p == d => acc.hit(RT),
        other => {
            acc.violation(&format!("NaiveDate::parse_from_str[{}]", form.fmt), format!("NaiveDate::parse_from_str({:?}, {:?})", buf, form.fmt), format!("Ok({:?})", d), format!("{:?}", other));
            return;
        }
    }
    // the sibling entry point: the same value, and whatever follows the formatted text is handed back untouched
    let l0 = buf.len();
    buf.push_str(TAIL);
    acc.transitions += 1;
    match NaiveDate::parse_and_remainder(buf, form.fmt) {
        Ok((p, rest)) if p == d && rest == TAIL => {}
        other => acc.violation(&format!("NaiveDate::parse_and_remainder[{}]", form.fmt), format!("NaiveDate::parse_and_remainder({:?}, {:?})", buf, form.fmt), format!("Ok(({:?}, {:?}))", d, TAIL), format!("{:?}", other)),
    }
    buf.truncate(l0);
    let (y, _, _) = civil_from_days(z);
    if !(0..=9999).contains(&y) {
        acc.hit_nt(SIGNED);
    }
    if y.abs() >= 10000 {
        acc.hit(FIVE);
    }
    if form.dom == Dom::Pivot || form.dom == Dom::IsoPivot {
        acc.hit_nt(PIVOT);
    }
    perturb(buf, form.letters, pert);
    for (t, cls) in pert.iter() {
        acc.transitions += 1;
        match NaiveDate::parse_from_str(t, form.fmt) {
            Ok(p) if p == d => acc.hit_nt(*cls),
            other => acc.violation(&format!("NaiveDate::parse_from_str[{}]:perturbed", form.fmt), format!("NaiveDate::parse_from_str({:?}, {:?})", t, form.fmt), format!("Ok({:?})", d), format!("{:?}", other)),
        }
    }
}

fn run_time(acc: &mut Acc, form: &TimeForm, s: u32, f: u32, buf: &mut String, pert: &mut Vec<(String, usize)>) {
    let t = mk_time(s, f);
    buf.clear();
    if write!(buf, "{}", t.format(form.fmt)).is_err() {
        acc.violation("format:error", format!("{:?}.format({:?})", t, form.fmt), "a rendering".into(), "Err".into());
        return;
    }
    let (es, ef) = expect_time(s, f, form.prec);
    let want = mk_time_any(es, ef);
    acc.transitions += 1;
    match NaiveTime::parse_from_str(buf, form.fmt) {
        Ok(p) if p == want => acc.hit(RT),
        other => {
            acc.violation(&format!("NaiveTime::parse_from_str[{}]", form.fmt), format!("NaiveTime::parse_from_str({:?}, {:?})", buf, form.fmt), format!("Ok({:?})", want), format!("{:?}", other));
            return;
        }
    }
    let l0 = buf.len();
    buf.push_str(TAIL);
    acc.transitions += 1;
    match NaiveTime::parse_and_remainder(buf, form.fmt) {
        Ok((p, rest)) if p == want && rest == TAIL => {}
        other => acc.violation(&format!("NaiveTime::parse_and_remainder[{}]", form.fmt), format!("NaiveTime::parse_and_remainder({:?}, {:?})", buf, form.fmt), format!("Ok(({:?}, {:?}))", want, TAIL), format!("{:?}", other)),
    }
    buf.truncate(l0);
    if f >= 1_000_000_000 {
        acc.hit_nt(LEAP);
    }
    if (es, ef) != (s, f) {
        acc.hit_nt(TRUNC);
    }
    if form.h12 {
        acc.hit(H12);
    }
    perturb(buf, form.letters, pert);
    for (x, cls) in pert.iter() {
        acc.transitions += 1;
        match NaiveTime::parse_from_str(x, form.fmt) {
            Ok(p) if p == want => acc.hit_nt(*cls),
            other => acc.violation(&format!("NaiveTime::parse_from_str[{}]:perturbed", form.fmt), format!("NaiveTime::parse_from_str({:?}, {:?})", x, form.fmt), format!("Ok({:?})", want), format!("{:?}", other)),
        }
    }
}

fn run_combined(acc: &mut Acc, df: &DateForm, tf: &TimeForm, sep: &str, z: i64, s: u32, f: u32, offs: &[i32], fmt: &mut String, buf: &mut String, pert: &mut Vec<(String, usize)>) {
    if !date_in_dom(df.dom, z) {
        return;
    }
    fmt.clear();
    fmt.push_str(df.fmt);
    fmt.push_str(sep);
    fmt.push_str(tf.fmt);
    let ndt = mk_ndt(z, s, f);
    let (es, ef) = expect_time(s, f, tf.prec);
    let want = mk_ndt(z, es, ef);
    buf.clear();
    if write!(buf, "{}", ndt.format(fmt)).is_err() {
        acc.violation("format:error", format!("{:?}.format({:?})", ndt, fmt), "a rendering".into(), "Err".into());
        return;
    }
    acc.transitions += 1;
    match NaiveDateTime::parse_from_str(buf, fmt) {
        Ok(p) if p == want => acc.hit(RT),
        other => {
            acc.violation(&format!("NaiveDateTime::parse_from_str[{}]", fmt), format!("NaiveDateTime::parse_from_str({:?}, {:?})", buf, fmt), format!("Ok({:?})", want), format!("{:?}", other));
            return;
        }
    }
    let l0 = buf.len();
    buf.push_str(TAIL);
    acc.transitions += 1;
    match NaiveDateTime::parse_and_remainder(buf, fmt) {
        Ok((p, rest)) if p == want && rest == TAIL => {}
        other => acc.violation(&format!("NaiveDateTime::parse_and_remainder[{}]", fmt), format!("NaiveDateTime::parse_and_remainder({:?}, {:?})", buf, fmt), format!("Ok(({:?}, {:?}))", want, TAIL), format!("{:?}", other)),
    }
    buf.truncate(l0);
    let letters = df.letters || tf.letters || sep.bytes().any(|c| c.is_ascii_alphabetic());
    perturb(buf, letters, pert);
    for (x, cls) in pert.iter() {
        acc.transitions += 1;
        match NaiveDateTime::parse_from_str(x, fmt) {
            Ok(p) if p == want => acc.hit_nt(*cls),
            other => acc.violation(&format!("NaiveDateTime::parse_from_str[{}]:perturbed", fmt), format!("NaiveDateTime::parse_from_str({:?}, {:?})", x, fmt), format!("Ok({:?})", want), format!("{:?}", other)),
        }
    }
    // zone-aware: append an offset form
    let l = fmt.len();
    for (ofmt, kind) in [(" %z", 0), (" %:z", 0), ("%z", 0), (" %#z", 1)] {
        fmt.truncate(l);
        fmt.push_str(ofmt);
        for &o in offs {
            let fo = FixedOffset::east_opt(o).unwrap();
            let Some(dt) = fo.from_local_datetime(&ndt).single() else { continue };
            let Some(wdt) = fo.from_local_datetime(&want).single() else { continue };
            buf.clear();
            if kind == 0 {
                let _ = write!(buf, "{}", dt.format(fmt));
            } else {
                // %#z is read-only: feed it the output of %z, and of %:::z when the minutes are zero
                let mut f2 = String::from(&fmt[..l]);
                f2.push_str(if o % 3600 == 0 { " %:::z" } else { " %z" });
                let _ = write!(buf, "{}", dt.format(&f2));
                acc.hit(PERM);
            }
            acc.transitions += 1;
            if o % 60 != 0 {
                // an offset with seconds is printed rounded to the nearest minute: "up to the precision the format
                // prints" = the same wall clock at the rounded offset
                let rounded = (o.abs() + 30) / 60 * 60 * o.signum();
                if FixedOffset::east_opt(rounded).and_then(|r| r.from_local_datetime(&want).single()).is_none() {
                    continue; // the same wall clock at the rounded offset is not representable
                }
                match DateTime::parse_from_str(buf, fmt) {
                    Ok(p) if p.offset().local_minus_utc() == rounded && p.naive_local() == want => acc.hit(RT),
                    other => acc.violation(&format!("DateTime::parse_from_str[{}]:offset-with-seconds", fmt), format!("DateTime::parse_from_str({:?}, {:?})", buf, fmt), format!("Ok(wall clock {:?} at offset {})", want, rounded), format!("{:?}", other)),
                }
                continue;
            }
            match DateTime::parse_from_str(buf, fmt) {
                Ok(p) if p == wdt && p.offset().local_minus_utc() == o && p.naive_local() == want => acc.hit(RT),
                other => acc.violation(&format!("DateTime::parse_from_str[{}]", fmt), format!("DateTime::parse_from_str({:?}, {:?})", buf, fmt), format!("Ok({:?})", wdt), format!("{:?}", other)),
            }
            if kind == 1 {
                continue; // %#z with the minutes missing reads to the end of its field only at the end of the input: no tail
            }
            buf.push_str(TAIL);
            acc.transitions += 1;
            match DateTime::parse_and_remainder(buf, fmt) {
                Ok((p, rest)) if p == wdt && p.offset().local_minus_utc() == o && rest == TAIL => {}
                other => acc.violation(&format!("DateTime::parse_and_remainder[{}]", fmt), format!("DateTime::parse_and_remainder({:?}, {:?})", buf, fmt), format!("Ok(({:?}, {:?}))", wdt, TAIL), format!("{:?}", other)),
            }
        }
    }
    fmt.truncate(l);
}

fn whole_forms(acc: &mut Acc, z: i64, s: u32, f: u32, offs: &[i32]) {
    let ndt = mk_ndt(z, s, f);
    let leap = f >= 1_000_000_000;
    // %c on NaiveDateTime (second precision)
    {
        let txt = ndt.format("%c").to_string();
        let want = mk_ndt(z, s, if leap { 1_000_000_000 } else { 0 });
        acc.transitions += 1;
        match NaiveDateTime::parse_from_str(&txt, "%c") {
            Ok(p) if p == want => acc.hit(RT),
            other => acc.violation("NaiveDateTime::parse_from_str[%c]", format!("NaiveDateTime::parse_from_str({:?}, \"%c\")", txt), format!("Ok({:?})", want), format!("{:?}", other)),
        }
    }
    for &o in offs.iter().filter(|o| *o % 60 == 0) {
        let fo = FixedOffset::east_opt(o).unwrap();
        let Some(dt) = fo.from_local_datetime(&ndt).single() else { continue };
        // %+
        let txt = dt.format("%+").to_string();
        acc.transitions += 1;
        match DateTime::parse_from_str(&txt, "%+") {
            Ok(p) if p == dt && p.offset().local_minus_utc() == o && p.naive_utc() == dt.naive_utc() => acc.hit(RT),
            other => acc.violation("DateTime::parse_from_str[%+]", format!("DateTime::parse_from_str({:?}, \"%+\")", txt), format!("Ok({:?})", dt), format!("{:?}", other)),
        }
        for x in [txt.to_ascii_lowercase(), txt.replace('T', " ")] {
            acc.transitions += 1;
            match DateTime::parse_from_str(&x, "%+") {
                Ok(p) if p == dt && p.offset().local_minus_utc() == o => acc.hit_nt(CASE),
                other => acc.violation("DateTime::parse_from_str[%+]:perturbed", format!("DateTime::parse_from_str({:?}, \"%+\")", x), format!("Ok({:?})", dt), format!("{:?}", other)),
            }
        }
        if !leap {
            // a timestamp cannot carry a leap second
            for (fmt, keep_frac) in [("%s %z", false), ("%s%.f %:z", true), ("%s.%9f%z", true), ("%-s %z", false)] {
                let txt = dt.format(fmt).to_string();
                let want = if keep_frac { dt } else { fo.from_utc_datetime(&mk_ndt_inst(ndt_inst(dt.naive_utc()).div_euclid(NS) * NS)) };
                acc.transitions += 1;
                match DateTime::parse_from_str(&txt, fmt) {
                    Ok(p) if p == want && p.offset().local_minus_utc() == o => {
                        acc.hit_nt(TSFORM);
                        if dt.timestamp() < 0 {
                            acc.hit(NEGTS);
                        }
                    }
                    other => acc.violation(if dt.timestamp() < 0 { "%s:negative" } else { "%s" }, format!("DateTime::parse_from_str({:?}, {:?})", txt, fmt), format!("Ok({:?})", want), format!("{:?}", other)),
                }
            }
        }
    }
}

fn main() {
    install_panic_hook();
    let args = parse_args();
    let start = Instant::now();
    if let Err(e) = selftest() {
        machinery(&format!("RefCal self-test failed: {}", e));
    }
    let spec = Spec {
        property: "C13",
        classes: CLASSES,
        required: &["roundtrip", "signed_year", "five_digit_year", "leap_second", "truncated_precision", "twelve_hour", "case_perturbed", "ws_perturbed", "pivot_year", "timestamp_form", "negative_timestamp", "permissive_offset"],
        rule: "format family = 35 date forms (calendar, ordinal, ISO week, Sunday/Monday week, century+year, names, composites, every padding modifier) x 21 time forms (24 h / 12 h, composites, every fraction form, fixed-width without separators) x separators {space, T} x offset forms {%z, %:z, %#z fed with %z/%:::z output} plus %c, %+, %s forms; every date form on all boundary dates within the value range the statement grants it (two-digit years only 1970..=2069, %C%y only 0..=9999), every time form on all boundary times incl. :60, every date x time combination on the small date set x offsets; parse(format(v)) must return v at the printed precision; the text is also perturbed: names in upper / lower / alternating case (only where the format has no literal letters), every space doubled / replaced by a tab / by space-newline-space; non-trivial = signed or 5-6 digit year, leap second, truncated precision, perturbed text, negative timestamp",
        assumptions: &["%::z, %:::z and %Z are print-only, %#z is read-only (statement)", "a leap second cannot survive %s", "formats with literal letters are not case-perturbed (a lower-cased literal is not a name perturbation)"],
    };
    let tier = args.tier;
    let dates = b_dates(tier);
    let small = b_dates_small();
    let times = b_times_fracs(true);
    // incl. the hours at which the printed width of the hour field changes (9 / 10) and the last hour
    let offs: Vec<i32> = vec![0, 60, -60, 3600, 19800, -34200, 50400, -43200, 86340, -86340, 29, -30, 3599, 10770, -21585, 32400, -35940, 36000, -36000, 37800, -39540, 39600, 82800, -82860];
    let nd = dates.len() as u64;
    let nt = times.len() as u64;
    let ns = small.len() as u64;
    let ndf = DATE_FORMS.len() as u64;
    let only = replay_unit(&args);
    let times_small: Vec<(u32, u32)> = vec![(0, 0), (1, 1), (43200, 500_000_000), (45296, 123_456_789), (86399, 999_999_999), (86399, 1_500_000_000), (3599, 1_000_000_000), (46800, 999_000)];
    let acc = explore_units(nd + nt + ns * ndf + ns, CLASSES.len(), only, |u, acc| {
        let mut buf = String::with_capacity(128);
        let mut fmt = String::with_capacity(128);
        let mut pert: Vec<(String, usize)> = Vec::with_capacity(8);
        if u < nd {
            let z = dates[u as usize];
            for form in DATE_FORMS {
                run_date(acc, form, z, &mut buf, &mut pert);
            }
            acc.states += 1;
            acc.traces += 1;
            if u % 211 == 0 {
                acc.sample(|| format!("date {:?} through all {} date forms, e.g. {:?} -> {:?}", mk_date(z), DATE_FORMS.len(), DATE_FORMS[8].fmt, mk_date(z).format(DATE_FORMS[8].fmt).to_string()));
            }
        } else if u < nd + nt {
            let (s, f) = times[(u - nd) as usize];
            for form in TIME_FORMS {
                run_time(acc, form, s, f, &mut buf, &mut pert);
            }
            // every second of the day through a 24 h and a 12 h form
            if f == 0 || f == 1_500_000_000 {
                for sec in 0..86400u32 {
                    if f >= 1_000_000_000 && sec % 60 != 59 {
                        continue;
                    }
                    for form in [&TIME_FORMS[0], &TIME_FORMS[8], &TIME_FORMS[12]] {
                        let t = mk_time(sec, f);
                        buf.clear();
                        let _ = write!(buf, "{}", t.format(form.fmt));
                        acc.transitions += 1;
                        let (es, ef) = expect_time(sec, f, form.prec);
                        let want = mk_time_any(es, ef);
                        if NaiveTime::parse_from_str(&buf, form.fmt) != Ok(want) {
                            acc.violation(&format!("NaiveTime::parse_from_str[{}]", form.fmt), format!("NaiveTime::parse_from_str({:?}, {:?})", buf, form.fmt), format!("Ok({:?})", want), format!("{:?}", NaiveTime::parse_from_str(&buf, form.fmt)));
                        }
                    }
                }
            }
            acc.states += 1;
            acc.traces += 1;
        } else if u < nd + nt + ns * ndf {
            let i = u - nd - nt;
            let z = small[(i / ndf) as usize];
            let df = &DATE_FORMS[(i % ndf) as usize];
            for tf in TIME_FORMS {
                for sep in [" ", "T", " at "] {
                    for &(s, f) in &times_small {
                        run_combined(acc, df, tf, sep, z, s, f, &offs, &mut fmt, &mut buf, &mut pert);
                    }
                }
            }
            acc.states += 1;
            acc.traces += 1;
        } else {
            let z = small[(u - nd - nt - ns * ndf) as usize];
            for &(s, f) in &times {
                whole_forms(acc, z, s, f, &offs);
            }
            acc.traces += 1;
            acc.sample(|| {
                let dt = FixedOffset::east_opt(0).unwrap().from_utc_datetime(&mk_ndt(z, 1, 500_000_000));
                format!("{:?}.format(\"%s%.f %:z\") = {:?} -> parse_from_str", dt, dt.format("%s%.f %:z").to_string())
            });
        }
    });
    let extra = Extra {
        bounds: json!({"date_forms": DATE_FORMS.len(), "time_forms": TIME_FORMS.len(), "combined_formats": DATE_FORMS.len() * TIME_FORMS.len() * 3 * 5, "boundary_dates": dates.len(), "times": times.len(), "small_dates": small.len(), "offsets": offs}),
        exhaustive: false,
        more: vec![],
    };
    finish(&spec, &args, start, acc, extra);
}
