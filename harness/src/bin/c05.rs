//! C05 — local time follows the zone data: offsets, gaps and folds.
//! Shapes P (all bounded zone models x dense instants) + S (every system zoneinfo file).
use chrono::offset::verif::VerifZone;
use chrono::{Local, MappedLocalTime, NaiveDateTime, Offset, TimeZone};
use chrono_mc::core::*;
use chrono_mc::lattice::*;
use chrono_mc::refcal::*;
use chrono_mc::reftz::*;
use chrono_mc::zonegen::*;
use serde_json::json;
use std::time::Instant;

const CLASSES: &[&str] = &["offset_ok", "wall_single", "wall_ambiguous", "wall_none", "exempt_second", "equal_offset_transition", "rule_zone", "table_zone", "footer_after_table", "system_zone", "southern_rule", "negative_dst", "public_route", "multi_overlap_skipped"];
const OFF_OK: usize = 0;
const W_SINGLE: usize = 1;
const W_AMB: usize = 2;
const W_NONE: usize = 3;
const EXEMPT: usize = 4;
const EQOFF: usize = 5;
const RULEZ: usize = 6;
const TABLEZ: usize = 7;
const FOOTER: usize = 8;
const SYSZ: usize = 9;
const SOUTH: usize = 10;
const NEGDST: usize = 11;
const PUBLIC: usize = 12;
const MULTI: usize = 13;

const MIN_T: i64 = MIN_DAY * 86400;
const MAX_T: i64 = (MAX_DAY + 1) * 86400 - 1;

fn wall_ndt(w: i64) -> Option<NaiveDateTime> {
    if w < MIN_T || w > MAX_T {
        return None;
    }
    Some(mk_ndt(w.div_euclid(86400), w.rem_euclid(86400) as u32, 0))
}

/// probe instants for a zone: dense around every transition, sparse elsewhere
fn probe_instants(z: &RefZone, years: &[i64]) -> Vec<i64> {
    let mut v: Vec<i64> = vec![];
    let tr = z.transitions_near(years);
    for &(t, ob, oa) in &tr {
        for d in -2..=2i64 {
            v.push(t.saturating_add(d));
            // instants whose wall clocks surround the images of the transition
            v.push(t.saturating_add(d + (ob - oa) as i64));
            v.push(t.saturating_add(d + (oa - ob) as i64));
        }
    }
    for w in tr.windows(2) {
        v.push(w[0].0 / 2 + w[1].0 / 2);
    }
    for &y in years {
        if (MIN_YEAR + 1..MAX_YEAR).contains(&y) {
            v.push(days_from_civil(y, 1, 1) * 86400 + 43200);
            v.push(days_from_civil(y, 7, 1) * 86400 + 43200);
        }
    }
    v.extend([MIN_T + 86400 * 2, MAX_T - 86400 * 2, 0, -1, 1]);
    v.retain(|t| *t >= MIN_T + 86400 * 2 && *t <= MAX_T - 86400 * 2);
    v.sort();
    v.dedup();
    v
}

/// judge one zone through the hook route
fn judge_zone(acc: &mut Acc, name: &dyn Fn() -> String, vz: &VerifZone, z: &RefZone, years: &[i64]) {
    let instants = probe_instants(z, years);
    let offs = z.offsets();
    for &t in &instants {
        let want = z.offset_at(t);
        acc.transitions += 1;
        match guard(|| vz.offset_at(t)) {
            Ok(Ok(o)) if o == want => acc.hit(OFF_OK),
            other => {
                acc.violation("offset_at", format!("{}: offset at unix time {} ({:?} UTC)", name(), t, wall_ndt(t)), format!("{}", want), format!("{:?}", other));
                continue;
            }
        }
        // wall clocks around this instant: its own reading under every offset of the zone
        for &o in &offs {
            let w = t + o as i64;
            let Some(wn) = wall_ndt(w) else { continue };
            let sols = z.instants_of_wall(w);
            let (wy, _, _) = civil_from_days(w.div_euclid(86400));
            let near = z.transitions_near(&[wy - 1, wy, wy + 1]);
            let exempt = near.iter().any(|&(tt, ob, oa)| ob != oa && tt.checked_add(ob as i64) == Some(w)); // only a skipped / repeated interval has a boundary second
            let got = guard(|| vz.offsets_for_local(wn));
            acc.transitions += 1;
            let got = match got {
                Ok(Ok(g)) => g,
                other => {
                    acc.violation("offsets_for_local:error", format!("{}: offsets for wall clock {:?}", name(), wn), "a result".into(), format!("{:?}", other));
                    continue;
                }
            };
            if exempt {
                acc.hit_nt(EXEMPT);
                continue;
            }
            if near.iter().any(|&(tt, ob, oa)| ob == oa && (tt + ob as i64 - w).abs() <= 2) {
                acc.hit_nt(EQOFF);
            }
            let want: Option<MappedLocalTime<i32>> = match sols.len() {
                0 => Some(MappedLocalTime::None),
                1 => Some(MappedLocalTime::Single((w - sols[0]) as i32)),
                2 => Some(MappedLocalTime::Ambiguous((w - sols[0]) as i32, (w - sols[1]) as i32)),
                _ => None,
            };
            match want {
                None => acc.hit(MULTI),
                Some(wv) => {
                    if got != wv {
                        // images of different transitions overlap when transitions are closer together than the
                        // offset changes; the table lookup stops at the first transition whose image contains the
                        // wall clock (known finding)
                        let overlapping = near.iter().filter(|&&(tt, ob, oa)| {
                            let (a, b) = (tt + ob.min(oa) as i64, tt + ob.max(oa) as i64);
                            ob != oa && w >= a - 1 && w <= b + 1
                        }).count() >= 2
                            || near.windows(2).any(|p| (p[1].0 - p[0].0) < (p[0].1 - p[0].2).abs().max((p[1].1 - p[1].2).abs()) as i64 && (w - p[0].0 - p[0].1 as i64).abs() <= 4 * 3600 + 86400);
                        if overlapping && acc.viol.iter().filter(|v| v.key == "wall:overlapping-transition-images").count() >= 3 {
                            acc.viol_total += 1; // already illustrated; do not format millions of repeats
                            continue;
                        }
                        acc.violation(match (&wv, &got) {
                            _ if overlapping => "wall:overlapping-transition-images",
                            (MappedLocalTime::Ambiguous(a, b), MappedLocalTime::Ambiguous(c, d)) if a == d && b == c => "wall:fold-order",
                            (MappedLocalTime::Single(_), MappedLocalTime::Ambiguous(c, d)) if c == d => "wall:ambiguous-identical",
                            _ => "wall",
                        }, format!("{}: offsets for wall clock {:?} (instants with that reading: {:?})", name(), wn, sols), format!("{:?} (earliest first)", wv), format!("{:?}", got));
                    } else {
                        match wv {
                            MappedLocalTime::None => acc.hit_nt(W_NONE),
                            MappedLocalTime::Single(_) => acc.hit(W_SINGLE),
                            MappedLocalTime::Ambiguous(..) => acc.hit_nt(W_AMB),
                        }
                    }
                }
            }
        }
    }
}

struct RuleSpec {
    text: String,
    rule: RefRule,
}

fn rule_days() -> Vec<RuleDay> {
    let mut v = vec![];
    for m in [1u8, 2, 3, 4, 6, 9, 10, 11, 12] {
        for w in [1u8, 2, 4, 5] {
            for d in [0u8, 1, 3, 6] {
                v.push(RuleDay::M { m, w, d });
            }
        }
    }
    for n in [1u16, 32, 59, 60, 61, 180, 334, 365] {
        v.push(RuleDay::J1(n));
    }
    for n in [0u16, 31, 58, 59, 60, 61, 200, 364, 365] {
        v.push(RuleDay::J0(n));
    }
    v
}

/// every rule day there is: 12 months x 5 weeks x 7 weekdays, every Jn, every zero-based n
fn rule_days_all() -> Vec<RuleDay> {
    let mut v = vec![];
    for m in 1..=12u8 {
        for w in 1..=5u8 {
            for d in 0..=6u8 {
                v.push(RuleDay::M { m, w, d });
            }
        }
    }
    for n in 1..=365u16 {
        v.push(RuleDay::J1(n));
    }
    for n in 0..=365u16 {
        v.push(RuleDay::J0(n));
    }
    v
}

/// the statement's proviso: rule transitions more than one day inside the calendar year (and apart from each other)
/// Tables with hundreds and with 2^16 transitions (the statement's "any transition count"): read from a file, then the
/// offset at every transition -1 / +0 / +1 s, and the wall-clock answers on both sides of and inside every skipped and
/// repeated hour (all of them up to 1000 transitions; the first, the last and those around index 2^8 and 2^16 beyond).
/// Expected values by construction: transition i switches from offset i mod 3 to offset (i + 1) mod 3 of +01 / +02 / +03.
fn many_transitions(acc: &mut Acc) {
    for &n in &MANY_COUNTS {
        let (z, version, v1, ind) = many_transition_zone(n);
        let bytes = write_tzif(&z, version, v1, ind);
        let vz = match guard(|| VerifZone::from_tzif(&bytes)) {
            Ok(Ok(v)) => v,
            other => {
                acc.violation("from_tzif:rejects-wellformed", format!("a table of {} daily transitions written as TZif v{}", n, version), "Ok".into(), format!("{:?}", other.map(|r| r.map(|_| ()))));
                continue;
            }
        };
        acc.states += 1;
        let off_in = |i: usize| MANY_OFFS[(i + 1) % 3]; // in effect from transition i on
        for i in 0..n {
            let t = z.trans[i].0;
            for (d, want) in [(-1i64, MANY_OFFS[i % 3]), (0, off_in(i)), (1, off_in(i))] {
                acc.transitions += 1;
                match guard(|| vz.offset_at(t + d)) {
                    Ok(Ok(o)) if o == want => acc.hit(OFF_OK),
                    other => {
                        acc.violation("offset_at:many-transitions", format!("table of {} daily transitions: offset at transition #{} {:+} s (unix time {})", n, i, d, t + d), format!("{}", want), format!("{:?}", other));
                        break;
                    }
                }
            }
            let sampled = n <= 1000 || i < 40 || i + 40 >= n || (250..=260).contains(&i) || (65_530..=65_545).contains(&i) || i % 4099 == 0;
            if !sampled {
                continue;
            }
            let (ob, oa) = (MANY_OFFS[i % 3], off_in(i));
            let gap = oa > ob;
            use MappedLocalTime as M;
            let (ob6, oa6) = (ob as i64, oa as i64);
            let cases: [(i64, M<i32>); 5] = if gap {
                [(ob6 - 1, M::Single(ob)), (ob6 + 1, M::None), ((ob6 + oa6) / 2, M::None), (oa6 - 1, M::None), (oa6, M::Single(oa))]
            } else {
                [(oa6 - 1, M::Single(ob)), (oa6, M::Ambiguous(ob, oa)), ((ob6 + oa6) / 2, M::Ambiguous(ob, oa)), (ob6 - 1, M::Ambiguous(ob, oa)), (ob6 + 1, M::Single(oa))]
            };
            for (d, want) in cases {
                let Some(wn) = wall_ndt(t + d) else { continue };
                acc.transitions += 1;
                match guard(|| vz.offsets_for_local(wn)) {
                    Ok(Ok(g)) if g == want => match want {
                        M::None => acc.hit_nt(W_NONE),
                        M::Single(_) => acc.hit(W_SINGLE),
                        M::Ambiguous(..) => acc.hit_nt(W_AMB),
                    },
                    other => {
                        acc.violation("wall:many-transitions", format!("table of {} daily transitions: offsets for wall clock {:?} (transition #{} at unix time {}, {})", n, wn, i, t, if gap { "an hour skipped" } else { "two hours repeated" }), format!("{:?}", want), format!("{:?}", other));
                        break;
                    }
                }
            }
        }
        acc.hit(TABLEZ);
    }
    acc.traces += 1;
}

fn inside_year(r: &RefRule, years: &[i64]) -> bool {
    let d = r.dst.as_ref().unwrap();
    // a rule whose start/end order differs from year to year belongs to no hemisphere and has no agreed
    // meaning (per-year evaluation and "latest transition wins" disagree): outside the judged domain
    let order: Vec<bool> = years.iter().flat_map(|y| [y - 1, *y, y + 1]).map(|y| { let (s, e) = r.year_transitions(y).unwrap(); s < e }).collect();
    if order.iter().any(|o| *o != order[0]) {
        return false;
    }
    for &y in years {
        let (s, e) = r.year_transitions(y).unwrap();
        let lo = days_from_civil(y, 1, 1) * 86400 + 2 * 86400 + 86400;
        let hi = days_from_civil(y + 1, 1, 1) * 86400 - 3 * 86400;
        for t in [s, e] {
            // in UTC and in both local readings
            for o in [0, r.std.off as i64, d.ty.off as i64] {
                if t + o <= lo || t + o >= hi {
                    return false;
                }
            }
        }
        if (s - e).abs() < 3 * 86400 {
            return false;
        }
    }
    true
}

fn public_route(acc: &mut Acc, tz_value: &str, z: &RefZone, years: &[i64], label: &str) {
    // the real Local on a fresh thread with TZ pointing at the zone (the cache is per thread)
    std::env::set_var("TZ", tz_value);
    let instants = probe_instants(z, years);
    let zc = z.clone();
    let label = label.to_string();
    let res = std::thread::spawn(move || {
        let mut a = Acc::new(CLASSES.len(), 0);
        for &t in instants.iter() {
            let Some(u) = wall_ndt(t) else { continue };
            let want = zc.offset_at(t);
            if want.abs() >= 86400 {
                continue;
            }
            a.transitions += 1;
            match guard(|| Local.offset_from_utc_datetime(&u).fix().local_minus_utc()) {
                Ok(o) if o == want => a.hit(PUBLIC),
                other => a.violation("public:offset_from_utc_datetime", format!("TZ={} Local.offset_from_utc_datetime({:?})", label, u), format!("{}", want), format!("{:?}", other)),
            }
            let w = t + want as i64;
            let Some(wn) = wall_ndt(w) else { continue };
            let (wy, _, _) = civil_from_days(w.div_euclid(86400));
            if zc.transitions_near(&[wy - 1, wy, wy + 1]).iter().any(|&(tt, ob, oa)| ob != oa && tt + ob as i64 == w) {
                continue;
            }
            let sols = zc.instants_of_wall(w);
            if sols.len() > 2 {
                continue;
            }
            let got = guard(|| Local.from_local_datetime(&wn).map(|d| d.naive_utc().and_utc().timestamp()));
            let wantm = match sols.len() {
                0 => MappedLocalTime::None,
                1 => MappedLocalTime::Single(sols[0]),
                _ => MappedLocalTime::Ambiguous(sols[0], sols[1]),
            };
            a.transitions += 1;
            if got != Ok(wantm) {
                a.violation("public:from_local_datetime", format!("TZ={} Local.from_local_datetime({:?})", label, wn), format!("{:?} (earliest first)", wantm), format!("{:?}", got));
            } else {
                a.hit(PUBLIC);
            }
            // the offset-only query and the selectors of its result: same candidates, earliest first
            let wanto = wantm.map(|t| (w - t) as i32);
            let goto = guard(|| {
                let r = Local.offset_from_local_datetime(&wn).map(|o| o.fix().local_minus_utc());
                (r, r.earliest(), r.latest(), r.single())
            });
            a.transitions += 1;
            if goto != Ok((wanto, wanto.earliest(), wanto.latest(), wanto.single())) {
                a.violation("public:offset_from_local_datetime", format!("TZ={} Local.offset_from_local_datetime({:?}) and earliest() / latest() / single() of it", label, wn), format!("{:?} (earliest first)", wanto), format!("{:?}", goto));
            }
        }
        a
    })
    .join();
    match res {
        Ok(a) => acc.merge(a),
        Err(_) => acc.violation("public:panic", format!("TZ={} conversions on a fresh thread", tz_value), "no panic".into(), "panic".into()),
    }
}

/// the result type's selectors and `map` keep "earliest first" (pure functions, checked on every shape)
fn mapped_local_time_algebra(acc: &mut Acc) {
    type M = MappedLocalTime<i64>;
    let shapes: Vec<M> = vec![M::None, M::Single(7), M::Ambiguous(3, 9), M::Ambiguous(9, 3), M::Ambiguous(5, 5)];
    for m in shapes {
        acc.transitions += 4;
        let (e, l, sg) = match m {
            M::None => (None, None, None),
            M::Single(x) => (Some(x), Some(x), Some(x)),
            M::Ambiguous(a, b) => (Some(a), Some(b), None),
        };
        let mapped = m.map(|x| x * 2 + 1);
        let want_mapped = match m {
            M::None => M::None,
            M::Single(x) => M::Single(x * 2 + 1),
            M::Ambiguous(a, b) => M::Ambiguous(a * 2 + 1, b * 2 + 1),
        };
        if (m.earliest(), m.latest(), m.single()) != (e, l, sg) || mapped != want_mapped {
            acc.violation("MappedLocalTime:selectors", format!("earliest / latest / single / map of {:?}", m), format!("{:?} {:?} {:?} / {:?}", e, l, sg, want_mapped), format!("{:?} {:?} {:?} / {:?}", m.earliest(), m.latest(), m.single(), mapped));
        }
    }
}

fn zone_files() -> Vec<(String, Vec<u8>)> {
    let mut out = vec![];
    let mut stack = vec![std::path::PathBuf::from("/usr/share/zoneinfo")];
    while let Some(d) = stack.pop() {
        let Ok(rd) = std::fs::read_dir(&d) else { continue };
        let mut entries: Vec<_> = rd.flatten().map(|e| e.path()).collect();
        entries.sort();
        for p in entries {
            let rel = p.strip_prefix("/usr/share/zoneinfo").unwrap().to_string_lossy().to_string();
            if rel.starts_with("right") {
                continue; // leap-second records (excluded by the statement)
            }
            if p.is_dir() {
                stack.push(p);
            } else if let Ok(b) = std::fs::read(&p) {
                if b.starts_with(b"TZif") {
                    out.push((rel, b));
                }
            }
        }
    }
    out.sort_by(|a, b| a.0.cmp(&b.0));
    out
}

fn main() {
    install_panic_hook();
    let args = parse_args();
    let start = Instant::now();
    if let Err(e) = selftest() {
        machinery(&format!("RefCal self-test failed: {}", e));
    }
    // reference self-tests: a known zone
    {
        let r = parse_tz_string("EST5EDT,M3.2.0,M11.1.0", false).unwrap_or_else(|| machinery("RefPosix cannot read EST5EDT"));
        let z = RefZone { trans: vec![], types: vec![r.std.clone()], rule: Some(r.clone()) };
        // 2023-11-05T06:00:00Z is the fall-back instant; 01:30 local occurs twice
        let w = days_from_civil(2023, 11, 5) * 86400 + 5400;
        if z.instants_of_wall(w) != vec![w + 14400, w + 18000] || z.offset_at(w + 14400) != -14400 || z.offset_at(days_from_civil(2023, 3, 12) * 86400 + 7 * 3600) != -14400 || z.offset_at(days_from_civil(2023, 3, 12) * 86400 + 7 * 3600 - 1) != -18000 {
            machinery("RefTz self-test (America/New_York rule) failed");
        }
        if r.to_tz_string() != "EST5EDT,M3.2.0,M11.1.0" {
            machinery(&format!("RefPosix writer self-test failed: {}", r.to_tz_string()));
        }
    }
    let spec = Spec {
        property: "C05",
        classes: CLASSES,
        required: &["offset_ok", "wall_single", "wall_ambiguous", "wall_none", "exempt_second", "equal_offset_transition", "rule_zone", "table_zone", "footer_after_table", "system_zone", "southern_rule", "negative_dst", "public_route"],
        rule: "zones: (a) ALL bounded zone models — 0..=3 transitions, types from a 13-entry palette (6 offsets x dst flag + an abbreviation-only variant), spacings {1 s, 3599 s, 1 h, 2 h, 1 d, 30 d}, footer {none, fixed, alternate rule consistent with the last type}, written as TZif v1/v2/v3 fat/slim with/without indicators by an independent writer; (b) a POSIX rule grid: std x dst-std (incl. negative DST) x all pairs of rule days (Mm.w.d grid, Jn, n) x rule times, kept when both transitions lie more than one day inside the year; (b') every rule day there is (12 months x 5 weeks x 7 weekdays, J1..J365, 0..365) once as start and once as end, the other end half a year away, over a full 28-year weekday/leap cycle; (b'') footers read from version 3 / 2 files carrying every kind of rule time (both signs, minute and second parts, range ends of the extended form); (a') tables of 255..1000 and 65,535..70,000 daily transitions cycling through three offsets (offset at every transition -1/0/+1 s, wall clocks around and inside every skipped / repeated interval); (c) every TZif file of the system zoneinfo database without leap records, decoded by an independent reader. instants: every second within +-2 s of every transition and of its wall-clock images, midpoints, 1 Jan / 1 Jul of probe years, both range ends; both directions through the guarded accessor, and through the real Local (TZ=:file / TZ=rule on a fresh thread) for the system zones and a stride of the others. oracle: offset_at, and the wall-clock answer = brute-force inversion of offset_at (0 -> None, 1 -> Single, 2 -> Ambiguous earliest first); the boundary second T + offset_before is exempt",
        assumptions: &["leap-second (right/) files are excluded by the statement", "wall clocks with more than two readings (transitions closer together than the offset change) are counted, not judged", "rule evaluation near the calendar year ends is outside the statement's proviso"],
    };
    let tier = args.tier;
    let files = zone_files();
    let nfiles = files.len() as u64;
    let space = synthetic_space();
    const SYN_CH: u64 = 4096;
    let n_syn = (space + SYN_CH - 1) / SYN_CH;
    let days = rule_days();
    let nd = days.len() as u64;
    let stds: Vec<i32> = if tier == Tier::Thorough { vec![-43200, -18000, -3723, -1172, 0, 1172, 3600, 3723, 19800, 43200] } else { vec![-18000, 3723, 1172, 0, 19800] };
    let deltas: Vec<i32> = if tier == Tier::Thorough { vec![3600, 1800, 7200, -3600] } else { vec![3600, -3600] };
    let times: Vec<(i32, i32)> = if tier == Tier::Thorough { vec![(7200, 7200), (0, 0), (5400, 10800), (86400, 3600), (10800, 86400)] } else { vec![(7200, 7200), (0, 86400)] };
    // both sides of the epoch, leap and common years, century years of both kinds
    let probe_years: Vec<i64> = vec![1600, 1900, 1948, 1968, 1970, 1972, 2000, 2023, 2024, 2026, 2037, 2100, 9999];
    let proviso_years: Vec<i64> = probe_years.iter().cloned().chain([1969, 1970, 1971, MIN_YEAR + 1, MIN_YEAR + 2, MAX_YEAR - 1, MAX_YEAR - 2]).collect();
    // a full 28-year weekday/leap cycle for the footers of the system zones, plus far years
    let sys_years: Vec<i64> = [1600i64, 1904, 1948, 1968, 1969, 1970, 2100, 2400, 9999].into_iter().chain(2023..=2051).collect();
    let n_rule = nd * nd;
    // second rule family: EVERY rule day once as the start and once as the end of the DST period, the other end about
    // half a year away, over a full 28-year weekday / leap cycle plus century years on both sides of the epoch
    let days_all = rule_days_all();
    let single_years: Vec<i64> = [1900i64, 1968, 1972, 2000, 2100].into_iter().chain(2023..=2050).collect();
    let single_proviso: Vec<i64> = single_years.iter().cloned().chain([1969, 1970, 1971]).collect();
    const SINGLE_CH: u64 = 8;
    let n_single = (2 * days_all.len() as u64 + SINGLE_CH - 1) / SINGLE_CH;
    // third family: footers carrying every kind of rule time (extended version-3 times of both signs with minute and
    // second parts, the plain form of version 2), read from a file
    let footers = chrono_mc::zonegen::footer_zones();
    const FOOT_CH: u64 = 8;
    let n_foot = (footers.len() as u64 + FOOT_CH - 1) / FOOT_CH;
    let only = replay_unit(&args);
    let mut acc = explore_units(n_syn + n_rule + nfiles + n_single + n_foot, CLASSES.len(), only, |u, acc| {
        if u == 0 {
            mapped_local_time_algebra(acc);
        }
        if u == 1 {
            many_transitions(acc);
        }
        if u >= n_syn + n_rule + nfiles + n_single {
            let k0 = (u - n_syn - n_rule - nfiles - n_single) * FOOT_CH;
            for k in k0..(k0 + FOOT_CH).min(footers.len() as u64) {
                let (z, version, v1, ind) = &footers[k as usize];
                let r = z.rule.as_ref().unwrap();
                if !inside_year(r, &single_proviso) {
                    acc.skip("rule transitions not more than one day inside the year (statement's proviso)");
                    continue;
                }
                let bytes = write_tzif(z, *version, *v1, *ind);
                match read_tzif(&bytes) {
                    Ok(back) if back == *z => {}
                    other => machinery(&format!("RefTzif writer/reader disagree on footer zone {}: {:?}", k, other)),
                }
                let vz = match guard(|| VerifZone::from_tzif(&bytes)) {
                    Ok(Ok(v)) => v,
                    other => {
                        acc.violation("from_tzif:rejects-wellformed", format!("footer zone #{} ({}) written as TZif v{}", k, r.to_tz_string(), version), "Ok".into(), format!("{:?}", other.map(|r| r.map(|_| ()))));
                        continue;
                    }
                };
                acc.states += 1;
                judge_zone(acc, &|| format!("TZif v{} file with footer {}", version, r.to_tz_string()), &vz, z, &single_years);
                acc.hit(RULEZ);
            }
            acc.traces += 1;
            return;
        }
        if u >= n_syn + n_rule + nfiles {
            let k0 = (u - n_syn - n_rule - nfiles) * SINGLE_CH;
            for k in k0..(k0 + SINGLE_CH).min(2 * days_all.len() as u64) {
                let day = days_all[(k / 2) as usize];
                let as_start = k % 2 == 0;
                // day of the year of this rule day in 2023, to put the other end far away
                let probe = RefRule { std: RefType { off: 0, dst: false, abbr: "AAA".into() }, dst: Some(RefDst { ty: RefType { off: 3600, dst: true, abbr: "BBB".into() }, start: day, start_time: 7200, end: day, end_time: 7200 }) };
                let doy = (probe.year_transitions(2023).unwrap().0 - days_from_civil(2023, 1, 1) * 86400) / 86400;
                let other = if doy < 183 { RuleDay::J0((doy + 170) as u16) } else { RuleDay::J0((doy - 170) as u16) };
                for &so in &[3723i32, -18000] {
                    let (sd, ed) = if as_start { (day, other) } else { (other, day) };
                    let r = RefRule { std: RefType { off: so, dst: false, abbr: "AAA".into() }, dst: Some(RefDst { ty: RefType { off: so + 3600, dst: true, abbr: "BBB".into() }, start: sd, start_time: 7200, end: ed, end_time: 7200 }) };
                    if !inside_year(&r, &single_proviso) {
                        acc.skip("rule transitions not more than one day inside the year (statement's proviso)");
                        continue;
                    }
                    let text = r.to_tz_string();
                    if parse_tz_string(&text, false).as_ref() != Some(&r) {
                        machinery(&format!("RefPosix writer/reader disagree on {}", text));
                    }
                    let vz = match guard(|| VerifZone::from_tz(Some(&text))) {
                        Ok(Ok(v)) => v,
                        other => {
                            acc.violation("from_tz:rejects-wellformed", format!("TZ={}", text), "Ok".into(), format!("{:?}", other.map(|r| r.map(|_| ()))));
                            continue;
                        }
                    };
                    let z = RefZone { trans: vec![], types: vec![r.std.clone()], rule: Some(r.clone()) };
                    acc.states += 1;
                    judge_zone(acc, &|| format!("TZ={}", text), &vz, &z, &single_years);
                    acc.hit(RULEZ);
                }
            }
            acc.traces += 1;
            return;
        }
        if u < n_syn {
            for code in u * SYN_CH..((u + 1) * SYN_CH).min(space) {
                let Some((z, version, v1, ind)) = synthetic_zones(code, tier) else { continue };
                let bytes = write_tzif(&z, version, v1, ind);
                // the independent reader must read back what the writer wrote
                let mut zr = z.clone();
                if version == 1 {
                    zr.rule = None;
                }
                match read_tzif(&bytes) {
                    Ok(back) if back == zr => {}
                    other => machinery(&format!("RefTzif writer/reader disagree on synthetic zone {}: {:?}", code, other)),
                }
                let vz = match guard(|| VerifZone::from_tzif(&bytes)) {
                    Ok(Ok(v)) => v,
                    other => {
                        acc.violation("from_tzif:rejects-wellformed", format!("synthetic zone #{} ({:?}) written as TZif v{}", code, zr, version), "Ok".into(), format!("{:?}", other.map(|r| r.map(|_| ()))));
                        continue;
                    }
                };
                acc.states += 1;
                judge_zone(acc, &|| format!("synthetic zone #{} v{} {:?}", code, version, zr), &vz, &zr, &[1999, 2000, 2001]);
                acc.hit(TABLEZ);
                if zr.rule.is_some() && !zr.trans.is_empty() {
                    acc.hit_nt(FOOTER);
                }
            }
            acc.traces += 1;
            if u % 997 == 0 {
                acc.sample(|| format!("synthetic zones #{}..#{}: e.g. {:?}", u * SYN_CH, (u + 1) * SYN_CH, synthetic_zones(u * SYN_CH + 4 * 6 * 3 + 3, Tier::Thorough).map(|x| x.0)));
            }
        } else if u < n_syn + n_rule {
            let i = u - n_syn;
            let start_day = days[(i / nd) as usize];
            let end_day = days[(i % nd) as usize];
            for &so in &stds {
                for &dl in &deltas {
                    for &(st, et) in &times {
                        let r = RefRule {
                            std: RefType { off: so, dst: false, abbr: if so == 19800 { "+0530".into() } else { "AAA".into() } },
                            dst: Some(RefDst { ty: RefType { off: so + dl, dst: true, abbr: "BBB".into() }, start: start_day, start_time: st, end: end_day, end_time: et }),
                        };
                        if !inside_year(&r, &proviso_years) {
                            acc.skip("rule transitions not more than one day inside the year (statement's proviso)");
                            continue;
                        }
                        let text = r.to_tz_string();
                        if parse_tz_string(&text, false).as_ref() != Some(&r) {
                            machinery(&format!("RefPosix writer/reader disagree on {}", text));
                        }
                        let vz = match guard(|| VerifZone::from_tz(Some(&text))) {
                            Ok(Ok(v)) => v,
                            other => {
                                acc.violation("from_tz:rejects-wellformed", format!("TZ={}", text), "Ok".into(), format!("{:?}", other.map(|r| r.map(|_| ()))));
                                continue;
                            }
                        };
                        let z = RefZone { trans: vec![], types: vec![r.std.clone()], rule: Some(r.clone()) };
                        acc.states += 1;
                        judge_zone(acc, &|| format!("TZ={}", text), &vz, &z, &probe_years);
                        acc.hit(RULEZ);
                        let (s, e) = r.year_transitions(2023).unwrap();
                        if s > e {
                            acc.hit_nt(SOUTH);
                        }
                        if dl < 0 {
                            acc.hit_nt(NEGDST);
                        }
                        let _ = RuleSpec { text: String::new(), rule: r };
                    }
                }
            }
            acc.traces += 1;
            if i % 1009 == 0 {
                acc.sample(|| format!("rule days {:?} / {:?} x std {:?} x dst-std {:?} x times {:?}", start_day, end_day, stds, deltas, times));
            }
        } else {
            let (name, bytes) = &files[(u - n_syn - n_rule) as usize];
            match read_tzif(bytes) {
                Ok(z) => {
                    let vz = match guard(|| VerifZone::from_tzif(bytes)) {
                        Ok(Ok(v)) => v,
                        other => {
                            acc.violation("from_tzif:rejects-system-file", format!("/usr/share/zoneinfo/{}", name), "Ok".into(), format!("{:?}", other.map(|r| r.map(|_| ()))));
                            return;
                        }
                    };
                    acc.states += 1;
                    judge_zone(acc, &|| format!("/usr/share/zoneinfo/{}", name), &vz, &z, &sys_years);
                    acc.hit(SYSZ);
                }
                Err(Reject::HasLeapRecords) => acc.skip("system file with leap-second records"),
                Err(e) => machinery(&format!("RefTzif reader cannot read system file {}: {:?}", name, e)),
            }
            acc.traces += 1;
        }
    });
    // public route (process-global TZ: single explorer thread, one fresh thread per zone)
    if only.is_none() {
        let old = std::env::var("TZ").ok();
        let stride = if tier == Tier::Thorough { 1 } else { 5 };
        for (i, (name, bytes)) in files.iter().enumerate() {
            if i % stride != 0 {
                continue;
            }
            if let Ok(z) = read_tzif(bytes) {
                if z.offsets().iter().any(|o| o.abs() >= 86400) {
                    continue;
                }
                public_route(&mut acc, &format!(":/usr/share/zoneinfo/{}", name), &z, &[1970, 2023, 2040], name);
            }
        }
        for text in ["EST5EDT,M3.2.0,M11.1.0", "AAA0BBB,M3.1.0,M3.5.0", "<+0530>-5:30", "AEST-10AEDT,M10.1.0,M4.1.0/3", "AAA-1BBB-0:00,J60/0,J300/24", "CET-1CEST,M3.5.0,M10.5.0/3"] {
            if let Some(r) = parse_tz_string(text, false) {
                let z = RefZone { trans: vec![], types: vec![r.std.clone()], rule: Some(r) };
                public_route(&mut acc, text, &z, &[2000, 2023, 2024], text);
            }
        }
        match old {
            Some(v) => std::env::set_var("TZ", v),
            None => std::env::remove_var("TZ"),
        }
    }
    let extra = Extra {
        bounds: json!({"synthetic_zone_codes": space, "max_transitions": 3, "rule_day_pairs": n_rule, "std_offsets": stds, "dst_minus_std": deltas, "rule_times": times, "system_files": nfiles, "probe_radius_s": 2}),
        exhaustive: false,
        more: vec![("exhaustive_over".into(), json!("all zone models within the stated bounds (thorough), the complete system database"))],
    };
    finish(&spec, &args, start, acc, extra);
}
