//! C01 — calendar / ordinal / ISO-week / day-count forms of a date agree.
//! Shape S: the whole date space walked as a chain (succ_opt), impl and RefCal in lock-step.
use chrono::{NaiveDateTime, NaiveTime, Datelike, NaiveDate, Weekday};
use chrono_mc::core::*;
use chrono_mc::refcal::*;
use chrono_mc::check_eq;
use serde_json::json;
use std::time::Instant;

const CLASSES: &[&str] = &[
    "accepted",
    "rejected_nonexistent",
    "rejected_out_of_range",
    "iso_year_gt_year",
    "iso_year_lt_year",
    "leap_day",
    "week53",
    "range_end_succ_none",
    "range_end_pred_none",
    "alias_rejected",
    "iso_year_beyond_range_accepted",
];
const ACCEPT: usize = 0;
const REJ_NE: usize = 1;
const REJ_OOR: usize = 2;
const ISO_GT: usize = 3;
const ISO_LT: usize = 4;
const LEAPDAY: usize = 5;
const W53: usize = 6;
const SUCC_NONE: usize = 7;
const PRED_NONE: usize = 8;
const ALIAS: usize = 9;
const ISO_BEYOND: usize = 10;

fn wd(i: u32) -> Weekday {
    match i {
        0 => Weekday::Mon,
        1 => Weekday::Tue,
        2 => Weekday::Wed,
        3 => Weekday::Thu,
        4 => Weekday::Fri,
        5 => Weekday::Sat,
        _ => Weekday::Sun,
    }
}

fn fields(d: NaiveDate) -> (i64, u32, u32, u32, u32, i64, u32, i64) {
    let iw = d.iso_week();
    (
        d.year() as i64,
        d.month(),
        d.day(),
        d.ordinal(),
        d.weekday().num_days_from_monday(),
        iw.year() as i64,
        iw.week(),
        d.num_days_from_ce() as i64,
    )
}

const ALIASES: &[u32] = &[
    16, 32, 64, 128, 255, 256, 512, 1 << 16, 1 << 24, 1 << 31, u32::MAX - 1, u32::MAX, 1000, 10000,
    // 7 * x wraps around 2^32 (week * 7): floor(k * 2^32 / 7)
    613_566_756, 1_227_133_513, 1_840_700_269, 2_454_267_026, 3_067_833_782, 3_681_400_539,
    // 12 * x and 31 * x wrap (month arithmetic)
    357_913_941, 715_827_882, 138_547_332,
];

/// chain sweep of the years [y0, y1) plus the first day of y1 (overlap with the next unit)
fn sweep_years(y0: i64, y1: i64, acc: &mut Acc) {
    let z0 = days_from_civil(y0, 1, 1);
    let mut c = DayCounter::at(z0);
    let Some(mut d) = NaiveDate::from_ymd_opt(y0 as i32, 1, 1) else {
        acc.violation("from_ymd_opt:in-range-year-start", format!("NaiveDate::from_ymd_opt({}, 1, 1)", y0), "Some".into(), "None".into());
        return;
    };
    let zend = if y1 > MAX_YEAR { MAX_DAY } else { days_from_civil(y1, 1, 1) };
    let mut prev_iso: Option<(chrono::IsoWeek, (i64, u32))> = None;
    loop {
        if c.z != zend || c.z == MAX_DAY {
            acc.states += 1; // the last day of a unit is the first of the next one
        }
        if !c.agrees_with_closed_forms() {
            machinery(&format!("RefCal counter and closed forms disagree at day {}", c.z));
        }
        // accessors
        let f = fields(d);
        let e = (c.y, c.m, c.d, c.ord, c.wd, c.iso_y, c.iso_w, c.z + CE_OFFSET);
        check_eq!(acc, "accessors", f, e, format!("fields of the date reached by succ_opt chain at day number {} (y,m,d,ord,wd,isoy,isow,ce)", c.z + CE_OFFSET));
        check_eq!(
            acc,
            "accessors0",
            (d.month0(), d.day0(), d.ordinal0(), d.leap_year(), d.year_ce(), d.weekday().number_from_monday(), d.iso_week().week0()),
            (c.m - 1, c.d - 1, c.ord - 1, is_leap(c.y), if c.y >= 1 { (true, c.y as u32) } else { (false, (1 - c.y) as u32) }, c.wd + 1, c.iso_w - 1),
            format!("0-based accessors / leap_year / year_ce of {:?}", d)
        );
        // constructors on the reference's field tuples
        check_eq!(acc, "from_ymd_opt", NaiveDate::from_ymd_opt(c.y as i32, c.m, c.d), Some(d), format!("NaiveDate::from_ymd_opt({}, {}, {})", c.y, c.m, c.d));
        check_eq!(acc, "from_yo_opt", NaiveDate::from_yo_opt(c.y as i32, c.ord), Some(d), format!("NaiveDate::from_yo_opt({}, {})", c.y, c.ord));
        check_eq!(
            acc,
            "from_isoywd_opt",
            NaiveDate::from_isoywd_opt(c.iso_y as i32, c.iso_w, wd(c.wd)),
            Some(d),
            format!("NaiveDate::from_isoywd_opt({}, {}, {:?})", c.iso_y, c.iso_w, wd(c.wd))
        );
        check_eq!(
            acc,
            "from_num_days_from_ce_opt",
            NaiveDate::from_num_days_from_ce_opt((c.z + CE_OFFSET) as i32),
            Some(d),
            format!("NaiveDate::from_num_days_from_ce_opt({})", c.z + CE_OFFSET)
        );
        // sibling forms: the deprecated panicking constructors, the conversions to and from NaiveDateTime, and the
        // Datelike view of a NaiveDateTime (its num_days_from_ce is the trait's default body, not NaiveDate's)
        #[allow(deprecated)]
        {
            check_eq!(
                acc,
                "deprecated-constructors",
                (NaiveDate::from_ymd(c.y as i32, c.m, c.d), NaiveDate::from_yo(c.y as i32, c.ord), NaiveDate::from_isoywd(c.iso_y as i32, c.iso_w, wd(c.wd)), NaiveDate::from_num_days_from_ce((c.z + CE_OFFSET) as i32)),
                (d, d, d, d),
                format!("NaiveDate::from_ymd / from_yo / from_isoywd / from_num_days_from_ce on the fields of day number {}", c.z + CE_OFFSET)
            );
        }
        {
            let t = chrono_mc::lattice::mk_time_any(((c.z.rem_euclid(86_400)) as u32 * 7919) % 86_400, (c.z.rem_euclid(1000) as u32) * 1_999_999);
            let ndt = d.and_time(t);
            let iw = ndt.iso_week();
            check_eq!(
                acc,
                "NaiveDateTime:Datelike",
                (ndt.year() as i64, ndt.month(), ndt.day(), ndt.ordinal(), ndt.weekday().num_days_from_monday(), iw.year() as i64, iw.week(), ndt.num_days_from_ce() as i64, ndt.month0(), ndt.day0(), ndt.ordinal0(), ndt.year_ce()),
                (c.y, c.m, c.d, c.ord, c.wd, c.iso_y, c.iso_w, c.z + CE_OFFSET, c.m - 1, c.d - 1, c.ord - 1, if c.y >= 1 { (true, c.y as u32) } else { (false, (1 - c.y) as u32) }),
                format!("Datelike accessors of NaiveDateTime {:?}", ndt)
            );
            check_eq!(acc, "Datelike::num_days_from_ce (trait-qualified)", (<NaiveDate as Datelike>::num_days_from_ce(&d) as i64, <NaiveDateTime as Datelike>::num_days_from_ce(&ndt) as i64, ndt.and_utc().num_days_from_ce() as i64), (c.z + CE_OFFSET, c.z + CE_OFFSET, c.z + CE_OFFSET), format!("<NaiveDate as Datelike>::num_days_from_ce / NaiveDateTime / DateTime<Utc> at {:?}", d));
            check_eq!(acc, "Datelike::num_days_in_month / quarter", (d.num_days_in_month() as u32, ndt.num_days_in_month() as u32, d.quarter(), ndt.quarter()), (days_in_month(c.y, c.m), days_in_month(c.y, c.m), (c.m - 1) / 3 + 1, (c.m - 1) / 3 + 1), format!("num_days_in_month() / quarter() of {:?} as NaiveDate and NaiveDateTime", d));
            check_eq!(acc, "NaiveDate<->NaiveDateTime", (NaiveDate::from(ndt), NaiveDateTime::from(d).date(), NaiveDateTime::from(d).time(), ndt.date()), (d, d, NaiveTime::MIN, d), format!("From conversions between NaiveDate and NaiveDateTime at {:?}", ndt));
        }
        acc.hit(ACCEPT);
        if c.iso_y > c.y {
            acc.hit_nt(ISO_GT);
            if c.iso_y > MAX_YEAR {
                acc.hit(ISO_BEYOND);
            }
        } else if c.iso_y < c.y {
            acc.hit_nt(ISO_LT);
            if c.iso_y < MIN_YEAR {
                acc.hit(ISO_BEYOND);
            }
        }
        if c.m == 2 && c.d == 29 {
            acc.hit_nt(LEAPDAY);
        }
        if c.iso_w == 53 {
            acc.hit_nt(W53);
        }
        // iso week order
        let iw = d.iso_week();
        if let Some((piw, pref)) = prev_iso {
            let same_ref = pref == (c.iso_y, c.iso_w);
            acc.transitions += 1;
            if (piw == iw) != same_ref || !(piw <= iw) || (!same_ref && !(piw < iw)) {
                acc.violation("iso_week:order", format!("iso_week() of {:?} vs its predecessor", d), format!("equal iff same ISO (year, week); non-decreasing; ref {:?} -> {:?}", pref, (c.iso_y, c.iso_w)), format!("{:?} then {:?}", piw, iw));
            }
        }
        prev_iso = Some((iw, (c.iso_y, c.iso_w)));
        if c.z % 1_000_003 == 0 {
            acc.sample(|| format!("day {} -> {:?} ord {} {:?} iso {}-W{}", c.z, d, c.ord, d.weekday(), c.iso_y, c.iso_w));
        }
        // step
        if c.z == MAX_DAY {
            check_eq!(acc, "succ_opt:at-max", d.succ_opt(), None, format!("{:?}.succ_opt()", d));
            acc.hit_nt(SUCC_NONE);
            break;
        }
        if c.z == MIN_DAY {
            check_eq!(acc, "pred_opt:at-min", d.pred_opt(), None, format!("{:?}.pred_opt()", d));
            acc.hit_nt(PRED_NONE);
        }
        if c.z == zend {
            break;
        }
        let Some(n) = d.succ_opt() else {
            acc.violation("succ_opt", format!("{:?}.succ_opt()", d), "Some(next day)".into(), "None".into());
            break;
        };
        acc.transitions += 2;
        if !(d < n) || n <= d || d.cmp(&n) != std::cmp::Ordering::Less {
            acc.violation("ord", format!("{:?} < {:?}", d, n), "true".into(), "false".into());
        }
        if n.pred_opt() != Some(d) {
            acc.violation("pred_opt", format!("{:?}.pred_opt()", n), format!("Some({:?})", d), format!("{:?}", n.pred_opt()));
        }
        d = n;
        c.step();
    }
    acc.traces += 1;
}

/// rejection / acceptance sets for one year: every small argument tuple + alias lattice
fn year_args(y: i64, acc: &mut Acc) {
    let in_range_year = (MIN_YEAR..=MAX_YEAR).contains(&y);
    let yi = y as i32;
    // from_ymd_opt
    for m in 0..=13u32 {
        for d in 0..=32u32 {
            let valid = in_range_year && m >= 1 && m <= 12 && d >= 1 && d <= days_in_month(y, m);
            let r = NaiveDate::from_ymd_opt(yi, m, d);
            acc.transitions += 1;
            match (valid, r) {
                (true, Some(x)) => {
                    if (x.year() as i64, x.month(), x.day()) != (y, m, d) {
                        acc.violation("from_ymd_opt:fields", format!("NaiveDate::from_ymd_opt({}, {}, {})", y, m, d), format!("{}-{}-{}", y, m, d), format!("{:?}", x));
                    }
                }
                (false, None) => {
                    if in_range_year {
                        acc.hit_nt(REJ_NE)
                    } else {
                        acc.hit_nt(REJ_OOR)
                    }
                }
                (true, None) => acc.violation("from_ymd_opt:rejects-valid", format!("NaiveDate::from_ymd_opt({}, {}, {})", y, m, d), "Some".into(), "None".into()),
                (false, Some(x)) => acc.violation("from_ymd_opt:accepts-invalid", format!("NaiveDate::from_ymd_opt({}, {}, {})", y, m, d), "None".into(), format!("Some({:?})", x)),
            }
        }
    }
    for &a in ALIASES {
        for v in [0u32, 1, 2, 12, 28, 31] {
            let x = a.wrapping_add(v);
            if x > 12 {
                acc.transitions += 1;
                if let Some(r) = NaiveDate::from_ymd_opt(yi, x, 1) {
                    acc.violation("from_ymd_opt:alias-month", format!("NaiveDate::from_ymd_opt({}, {}, 1)", y, x), "None".into(), format!("Some({:?})", r));
                } else {
                    acc.hit(ALIAS);
                }
            }
            if x > 31 {
                acc.transitions += 1;
                if let Some(r) = NaiveDate::from_ymd_opt(yi, 1, x) {
                    acc.violation("from_ymd_opt:alias-day", format!("NaiveDate::from_ymd_opt({}, 1, {})", y, x), "None".into(), format!("Some({:?})", r));
                } else {
                    acc.hit(ALIAS);
                }
            }
            if x > 366 {
                acc.transitions += 1;
                if let Some(r) = NaiveDate::from_yo_opt(yi, x) {
                    acc.violation("from_yo_opt:alias", format!("NaiveDate::from_yo_opt({}, {})", y, x), "None".into(), format!("Some({:?})", r));
                } else {
                    acc.hit(ALIAS);
                }
            }
            if x > 53 {
                acc.transitions += 1;
                if let Some(r) = NaiveDate::from_isoywd_opt(yi, x, Weekday::Mon) {
                    acc.violation("from_isoywd_opt:alias", format!("NaiveDate::from_isoywd_opt({}, {}, Mon)", y, x), "None".into(), format!("Some({:?})", r));
                } else {
                    acc.hit(ALIAS);
                }
            }
        }
    }
    // the deprecated panicking forms on a handful of tuples per year: the _opt answer, or a panic where that is None
    #[allow(deprecated)]
    if y.rem_euclid(5) == 0 || !in_range_year {
        for (m, d) in [(0u32, 1u32), (13, 1), (2, 29), (2, 30), (4, 31), (12, 31), (1, 0), (1, 32)] {
            acc.transitions += 1;
            let got = guard(|| NaiveDate::from_ymd(yi, m, d)).ok();
            if got != NaiveDate::from_ymd_opt(yi, m, d) {
                acc.violation("from_ymd (deprecated form)", format!("NaiveDate::from_ymd({}, {}, {})", y, m, d), format!("{:?} (panic for None)", NaiveDate::from_ymd_opt(yi, m, d)), format!("{:?}", got));
            }
        }
        for o in [0u32, 1, 365, 366, 367] {
            acc.transitions += 1;
            let got = guard(|| NaiveDate::from_yo(yi, o)).ok();
            if got != NaiveDate::from_yo_opt(yi, o) {
                acc.violation("from_yo (deprecated form)", format!("NaiveDate::from_yo({}, {})", y, o), format!("{:?} (panic for None)", NaiveDate::from_yo_opt(yi, o)), format!("{:?}", got));
            }
        }
        for (w, k) in [(0u32, 0u32), (1, 0), (1, 6), (52, 6), (53, 0), (53, 6), (54, 0)] {
            acc.transitions += 1;
            let got = guard(|| NaiveDate::from_isoywd(yi, w, wd(k))).ok();
            let want = guard(|| NaiveDate::from_isoywd_opt(yi, w, wd(k))).ok().flatten();
            if got != want {
                acc.violation("from_isoywd (deprecated form)", format!("NaiveDate::from_isoywd({}, {}, {:?})", y, w, wd(k)), format!("{:?} (panic for None)", want), format!("{:?}", got));
            }
        }
    }
    // from_yo_opt
    for o in 0..=367u32 {
        let valid = in_range_year && o >= 1 && o <= days_in_year(y);
        let r = NaiveDate::from_yo_opt(yi, o);
        acc.transitions += 1;
        match (valid, r) {
            (true, Some(x)) => {
                if (x.year() as i64, x.ordinal()) != (y, o) {
                    acc.violation("from_yo_opt:fields", format!("NaiveDate::from_yo_opt({}, {})", y, o), format!("{}-{}", y, o), format!("{:?}", x));
                }
            }
            (false, None) => {
                if in_range_year {
                    acc.hit_nt(REJ_NE)
                } else {
                    acc.hit_nt(REJ_OOR)
                }
            }
            (true, None) => acc.violation("from_yo_opt:rejects-valid", format!("NaiveDate::from_yo_opt({}, {})", y, o), "Some".into(), "None".into()),
            (false, Some(x)) => acc.violation("from_yo_opt:accepts-invalid", format!("NaiveDate::from_yo_opt({}, {})", y, o), "None".into(), format!("Some({:?})", x)),
        }
    }
    // from_isoywd_opt: the ISO year may be one beyond the calendar range
    if y >= i32::MIN as i64 + 400 && y <= i32::MAX as i64 - 400 {
        for w in 0..=54u32 {
            for k in 0..7u32 {
                let want = day_from_iso(y, w, k).filter(|z| day_in_range(*z));
                let r = NaiveDate::from_isoywd_opt(yi, w, wd(k));
                acc.transitions += 1;
                match (want, r) {
                    (Some(z), Some(x)) => {
                        if x.num_days_from_ce() as i64 != z + CE_OFFSET {
                            acc.violation("from_isoywd_opt:value", format!("NaiveDate::from_isoywd_opt({}, {}, {:?})", y, w, wd(k)), format!("day number {}", z + CE_OFFSET), format!("{:?} = day {}", x, x.num_days_from_ce()));
                        }
                    }
                    (None, None) => {
                        if in_range_year {
                            acc.hit_nt(REJ_NE)
                        } else {
                            acc.hit_nt(REJ_OOR)
                        }
                    }
                    (Some(z), None) => acc.violation("from_isoywd_opt:rejects-valid", format!("NaiveDate::from_isoywd_opt({}, {}, {:?})", y, w, wd(k)), format!("Some(day {})", z + CE_OFFSET), "None".into()),
                    (None, Some(x)) => acc.violation("from_isoywd_opt:accepts-invalid", format!("NaiveDate::from_isoywd_opt({}, {}, {:?})", y, w, wd(k)), "None".into(), format!("Some({:?})", x)),
                }
            }
        }
    } else {
        for w in [0u32, 1, 2, 52, 53, 54] {
            for k in 0..7u32 {
                acc.transitions += 1;
                match guard(|| NaiveDate::from_isoywd_opt(yi, w, wd(k))) {
                    Ok(None) => acc.hit_nt(REJ_OOR),
                    Ok(Some(x)) => acc.violation("from_isoywd_opt:accepts-invalid", format!("NaiveDate::from_isoywd_opt({}, {}, {:?})", y, w, wd(k)), "None".into(), format!("Some({:?})", x)),
                    Err(p) => acc.violation("from_isoywd_opt:panic", format!("NaiveDate::from_isoywd_opt({}, {}, {:?})", y, w, wd(k)), "None".into(), format!("panic: {}", p)),
                }
            }
        }
    }
}

fn day_numbers(lo: i64, hi: i64, acc: &mut Acc) {
    // from_num_days_from_ce_opt over a contiguous range of i32 arguments [lo, hi)
    for n in lo..hi {
        let z = n - CE_OFFSET;
        let r = NaiveDate::from_num_days_from_ce_opt(n as i32);
        acc.transitions += 1;
        if day_in_range(z) {
            match r {
                Some(x) if x.num_days_from_ce() as i64 == n => {}
                other => acc.violation("from_num_days_from_ce_opt:value", format!("NaiveDate::from_num_days_from_ce_opt({})", n), format!("Some(date with day number {})", n), format!("{:?}", other)),
            }
        } else if let Some(x) = r {
            acc.violation("from_num_days_from_ce_opt:accepts-out-of-range", format!("NaiveDate::from_num_days_from_ce_opt({})", n), "None".into(), format!("Some({:?})", x));
        } else {
            acc.cls[REJ_OOR] += 1;
        }
    }
}

fn out_of_range_years() -> Vec<i64> {
    let mut v = vec![MIN_YEAR - 2, MIN_YEAR - 1, MAX_YEAR + 1, MAX_YEAR + 2];
    for k in [18u32, 19, 20, 24, 30, 31] {
        for s in [-1i64, 0, 1] {
            v.push((1i64 << k) + s);
            v.push(-(1i64 << k) + s);
        }
    }
    v.extend([i32::MIN as i64, i32::MIN as i64 + 1, i32::MIN as i64 + 2, i32::MAX as i64, i32::MAX as i64 - 1, i32::MAX as i64 - 2, 1_000_000, -1_000_000]);
    v.retain(|y| *y >= i32::MIN as i64 && *y <= i32::MAX as i64 && !(MIN_YEAR..=MAX_YEAR).contains(y));
    v.sort();
    v.dedup();
    v
}

fn main() {
    install_panic_hook();
    let args = parse_args();
    let start = Instant::now();
    if let Err(e) = selftest() {
        machinery(&format!("RefCal self-test failed: {}", e));
    }
    let spec = Spec {
        property: "C01",
        classes: CLASSES,
        required: &["accepted", "rejected_nonexistent", "rejected_out_of_range", "iso_year_gt_year", "iso_year_lt_year", "leap_day", "week53", "range_end_succ_none", "range_end_pred_none", "alias_rejected"],
        rule: "state = one representable date; the chain -262143-01-01 .. +262142-12-31 is walked with succ_opt and at every state all Datelike accessors and the four constructors are compared with RefCal (counter and closed forms); per year every (month 0..=13, day 0..=32), ordinal 0..=367, (week 0..=54, weekday) tuple plus an alias lattice is classified accept/reject; non-trivial = leap day, ISO year != calendar year, week 53, range end, rejected tuple",
        assumptions: &["argument tuples beyond the small domain and the alias lattice are covered only through the gating comparisons (month<=12, day<=31, ordinal<=366, week<=nweeks)", "RefCal closed forms and counter are independent of chrono and cross-checked on every swept day"],
    };
    const YEARS_PER_UNIT: i64 = 512;
    let nyears = MAX_YEAR - MIN_YEAR + 1;
    let nsweep = (nyears + YEARS_PER_UNIT - 1) / YEARS_PER_UNIT;
    let oor = out_of_range_years();
    // day-number units: quick = in-range day numbers +-1e6 and the i32 lattice; thorough = every i32
    const DN_CHUNK: i64 = 1 << 22;
    let (dn_lo, dn_hi) = if args.tier == Tier::Thorough {
        (i32::MIN as i64, i32::MAX as i64 + 1)
    } else {
        (MIN_DAY + CE_OFFSET - 1_000_000, MAX_DAY + CE_OFFSET + 1_000_001)
    };
    let ndn = (dn_hi - dn_lo + DN_CHUNK - 1) / DN_CHUNK;
    let nunits = (2 * nsweep + 1 + ndn) as u64;
    let only = replay_unit(&args);
    let acc = explore_units(nunits, CLASSES.len(), only, |u, acc| {
        let u = u as i64;
        if u < nsweep {
            let y0 = MIN_YEAR + u * YEARS_PER_UNIT;
            sweep_years(y0, (y0 + YEARS_PER_UNIT).min(MAX_YEAR + 1), acc);
        } else if u < 2 * nsweep {
            let y0 = MIN_YEAR + (u - nsweep) * YEARS_PER_UNIT;
            for y in y0..(y0 + YEARS_PER_UNIT).min(MAX_YEAR + 1) {
                year_args(y, acc);
            }
        } else if u == 2 * nsweep {
            for &y in &oor {
                year_args(y, acc);
            }
            // i32 lattice of day numbers
            for k in 0..32u32 {
                for s in [-1i64, 0, 1] {
                    for sign in [-1i64, 1] {
                        let n = sign * (1i64 << k) + s;
                        if n >= i32::MIN as i64 && n <= i32::MAX as i64 {
                            day_numbers(n, n + 1, acc);
                        }
                    }
                }
            }
            day_numbers(i32::MIN as i64, i32::MIN as i64 + 3, acc);
            day_numbers(i32::MAX as i64 - 2, i32::MAX as i64 + 1, acc);
        } else {
            let i = u - 2 * nsweep - 1;
            let lo = dn_lo + i * DN_CHUNK;
            day_numbers(lo, (lo + DN_CHUNK).min(dn_hi), acc);
        }
    });
    let extra = Extra {
        bounds: json!({"dates": 191_491_529u64, "years": nyears, "out_of_range_years": oor.len(), "alias_values": ALIASES.len(), "day_number_arguments": dn_hi - dn_lo, "all_i32_day_numbers": args.tier == Tier::Thorough}),
        exhaustive: true,
        more: vec![],
    };
    finish(&spec, &args, start, acc, extra);
}
