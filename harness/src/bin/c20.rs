//! C20 — serialized forms deserialize to the same value (feature `serde`). Shape P.
use ::serde::{Deserialize, Serialize};
use chrono::{DateTime, FixedOffset, Local, Month, NaiveDate, NaiveDateTime, NaiveTime, TimeDelta, TimeZone, Utc, Weekday};
use chrono_mc::core::*;
use chrono_mc::lattice::*;
use chrono_mc::refcal::*;
use serde_json::json;
use std::time::Instant;

const CLASSES: &[&str] = &["json_roundtrip", "bincode_roundtrip", "ts_written_exact", "ts_read_ok", "ts_read_rejected", "ts_unsigned_path", "ts_negative_floor", "ts_option_none", "nanos_out_of_window", "offset_kept", "leap_value", "headroom_value"];
const JSON_RT: usize = 0;
const BIN_RT: usize = 1;
const TS_WR: usize = 2;
const TS_RD: usize = 3;
const TS_REJ: usize = 4;
const TS_U: usize = 5;
const TS_NEG: usize = 6;
const TS_NONE: usize = 7;
const NS_OOW: usize = 8;
const OFFKEPT: usize = 9;
const LEAP: usize = 10;
const HEADROOM: usize = 11;

macro_rules! wrappers {
    ($($name:ident, $opt:ident, $naive:ident, $naive_opt:ident, $m:literal, $mo:literal, $nm:literal, $nmo:literal);*) => {
        $(
            #[derive(Serialize, Deserialize, PartialEq, Debug, Clone)]
            struct $name(#[serde(with = $m)] DateTime<Utc>);
            #[derive(Serialize, Deserialize, PartialEq, Debug, Clone)]
            struct $opt(#[serde(with = $mo)] Option<DateTime<Utc>>);
            #[derive(Serialize, Deserialize, PartialEq, Debug, Clone)]
            struct $naive(#[serde(with = $nm)] NaiveDateTime);
            #[derive(Serialize, Deserialize, PartialEq, Debug, Clone)]
            struct $naive_opt(#[serde(with = $nmo)] Option<NaiveDateTime>);
        )*
    };
}
wrappers!(
    US, USO, NS_, NSO, "chrono::serde::ts_seconds", "chrono::serde::ts_seconds_option", "chrono::naive::serde::ts_seconds", "chrono::naive::serde::ts_seconds_option";
    UMs, UMsO, NMs, NMsO, "chrono::serde::ts_milliseconds", "chrono::serde::ts_milliseconds_option", "chrono::naive::serde::ts_milliseconds", "chrono::naive::serde::ts_milliseconds_option";
    UUs, UUsO, NUs, NUsO, "chrono::serde::ts_microseconds", "chrono::serde::ts_microseconds_option", "chrono::naive::serde::ts_microseconds", "chrono::naive::serde::ts_microseconds_option";
    UNs, UNsO, NNs, NNsO, "chrono::serde::ts_nanoseconds", "chrono::serde::ts_nanoseconds_option", "chrono::naive::serde::ts_nanoseconds", "chrono::naive::serde::ts_nanoseconds_option"
);

fn fits64(x: i128) -> bool {
    x >= i64::MIN as i128 && x <= i64::MAX as i128
}

/// instant (ns, non-leap) in range?
fn inst_ok(i: i128) -> bool {
    i >= MIN_INST && i <= MAX_INST
}

/// one timestamp module: `per` = units per second
trait TsMod: Sized + Serialize + for<'a> Deserialize<'a> + PartialEq + std::fmt::Debug {
    const NAME: &'static str;
    const PER: i128;
    fn wrap(ndt: NaiveDateTime) -> Self;
    fn inst(&self) -> i128;
}
trait TsOpt: Sized + Serialize + for<'a> Deserialize<'a> + PartialEq + std::fmt::Debug {
    fn some(ndt: NaiveDateTime) -> Self;
    fn none() -> Self;
    fn inst(&self) -> Option<i128>;
}
macro_rules! tsmods {
    ($($t:ident, $o:ident, $name:literal, $per:expr, $utc:expr);*) => {
        $(
            impl TsMod for $t {
                const NAME: &'static str = $name;
                const PER: i128 = $per;
                fn wrap(ndt: NaiveDateTime) -> Self { if $utc { $t(conv_utc(ndt)) } else { $t(conv_naive(ndt)) } }
                fn inst(&self) -> i128 { inst_of(&self.0) }
            }
            impl TsOpt for $o {
                fn some(ndt: NaiveDateTime) -> Self { if $utc { $o(Some(conv_utc(ndt))) } else { $o(Some(conv_naive(ndt))) } }
                fn none() -> Self { $o(None) }
                fn inst(&self) -> Option<i128> { self.0.as_ref().map(inst_of) }
            }
        )*
    };
}
trait Conv<T> {
    fn conv(n: NaiveDateTime) -> T;
}
fn conv_utc<T: FromNdt>(n: NaiveDateTime) -> T {
    T::from_ndt(n)
}
fn conv_naive<T: FromNdt>(n: NaiveDateTime) -> T {
    T::from_ndt(n)
}
trait FromNdt {
    fn from_ndt(n: NaiveDateTime) -> Self;
    fn to_ndt(&self) -> NaiveDateTime;
}
impl FromNdt for DateTime<Utc> {
    fn from_ndt(n: NaiveDateTime) -> Self {
        Utc.from_utc_datetime(&n)
    }
    fn to_ndt(&self) -> NaiveDateTime {
        self.naive_utc()
    }
}
impl FromNdt for NaiveDateTime {
    fn from_ndt(n: NaiveDateTime) -> Self {
        n
    }
    fn to_ndt(&self) -> NaiveDateTime {
        *self
    }
}
fn inst_of<T: FromNdt>(t: &T) -> i128 {
    ndt_inst(t.to_ndt())
}
tsmods!(
    US, USO, "serde::ts_seconds", 1, true; NS_, NSO, "naive::serde::ts_seconds", 1, false;
    UMs, UMsO, "serde::ts_milliseconds", 1000, true; NMs, NMsO, "naive::serde::ts_milliseconds", 1000, false;
    UUs, UUsO, "serde::ts_microseconds", 1_000_000, true; NUs, NUsO, "naive::serde::ts_microseconds", 1_000_000, false;
    UNs, UNsO, "serde::ts_nanoseconds", 1_000_000_000, true; NNs, NNsO, "naive::serde::ts_nanoseconds", 1_000_000_000, false
);

fn ts_module<M: TsMod, O: TsOpt>(acc: &mut Acc, values: &[i128], ints: &[i128]) {
    let unit_ns = NS / M::PER;
    // serialization of the value lattice: the exact integer timestamp, read back at the module's precision
    for &inst in values {
        let ndt = mk_ndt_inst(inst);
        let count = inst.div_euclid(unit_ns);
        let v = M::wrap(ndt);
        let js = guard(|| serde_json::to_string(&v));
        acc.transitions += 1;
        let expect_ok = fits64(count) && (M::PER != 1_000_000_000 || fits64(inst));
        match js {
            Err(p) => acc.violation(&format!("{}:serialize-panic", M::NAME), format!("serde_json::to_string({}({:?}))", M::NAME, ndt), "Ok or Err".into(), format!("panic: {}", p)),
            Ok(Ok(s)) => {
                if !expect_ok || s != count.to_string() {
                    acc.violation(&format!("{}:written", M::NAME), format!("serde_json::to_string({}({:?}))", M::NAME, ndt), if expect_ok { count.to_string() } else { "Err (count does not fit)".into() }, s.clone());
                    continue;
                }
                acc.hit(TS_WR);
                if inst < 0 && inst.rem_euclid(unit_ns) != 0 {
                    acc.hit_nt(TS_NEG);
                }
                acc.transitions += 3;
                match guard(|| serde_json::from_str::<M>(&s)) {
                    Ok(Ok(back)) if back.inst() == count * unit_ns => acc.hit(JSON_RT),
                    other => acc.violation(&format!("{}:json-roundtrip", M::NAME), format!("serde_json::from_str::<{}>({:?})", M::NAME, s), format!("instant {} ns", count * unit_ns), format!("{:?}", other)),
                }
                // positional format: the integer as i64
                match guard(|| bincode::serialize(&v)) {
                    Ok(Ok(bytes)) if bytes == (count as i64).to_le_bytes() => match guard(|| bincode::deserialize::<M>(&bytes)) {
                        Ok(Ok(back)) if back.inst() == count * unit_ns => acc.hit(BIN_RT),
                        other => acc.violation(&format!("{}:bincode-roundtrip", M::NAME), format!("bincode::deserialize::<{}>(i64 {})", M::NAME, count), format!("instant {} ns", count * unit_ns), format!("{:?}", other)),
                    },
                    other => acc.violation(&format!("{}:bincode-written", M::NAME), format!("bincode::serialize({}({:?}))", M::NAME, ndt), format!("i64 {}", count), format!("{:?}", other)),
                }
                // option variant
                let o = O::some(ndt);
                match guard(|| serde_json::to_string(&o)) {
                    Ok(Ok(s2)) if s2 == s => match guard(|| serde_json::from_str::<O>(&s2)) {
                        Ok(Ok(back)) if back.inst() == Some(count * unit_ns) => {}
                        other => acc.violation(&format!("{}_option:json-roundtrip", M::NAME), format!("serde_json::from_str::<{}_option>({:?})", M::NAME, s2), format!("Some(instant {} ns)", count * unit_ns), format!("{:?}", other)),
                    },
                    other => acc.violation(&format!("{}_option:written", M::NAME), format!("serde_json::to_string({}_option(Some({:?})))", M::NAME, ndt), s.clone(), format!("{:?}", other)),
                }
                if let Ok(Ok(b)) = guard(|| bincode::serialize(&o)) {
                    match guard(|| bincode::deserialize::<O>(&b)) {
                        Ok(Ok(back)) if back.inst() == Some(count * unit_ns) => {}
                        other => acc.violation(&format!("{}_option:bincode-roundtrip", M::NAME), format!("bincode round trip of {}_option(Some({:?}))", M::NAME, ndt), format!("Some(instant {} ns)", count * unit_ns), format!("{:?}", other)),
                    }
                }
            }
            Ok(Err(_)) => {
                if expect_ok {
                    acc.violation(&format!("{}:serialize-refuses", M::NAME), format!("serde_json::to_string({}({:?}))", M::NAME, ndt), count.to_string(), "Err".into());
                } else {
                    acc.hit_nt(NS_OOW);
                }
            }
        }
    }
    // None
    for (txt, _) in [("null", 0)] {
        acc.transitions += 2;
        match guard(|| serde_json::from_str::<O>(txt)) {
            Ok(Ok(b)) if b.inst().is_none() => acc.hit_nt(TS_NONE),
            other => acc.violation(&format!("{}_option:null", M::NAME), format!("serde_json::from_str::<{}_option>(\"null\")", M::NAME), "None".into(), format!("{:?}", other)),
        }
        let n = O::none();
        match guard(|| serde_json::to_string(&n)) {
            Ok(Ok(s)) if s == "null" => {}
            other => acc.violation(&format!("{}_option:none-written", M::NAME), format!("serde_json::to_string({}_option(None))", M::NAME), "null".into(), format!("{:?}", other)),
        }
        if let Ok(Ok(b)) = guard(|| bincode::serialize(&n)) {
            match guard(|| bincode::deserialize::<O>(&b)) {
                Ok(Ok(back)) if back.inst().is_none() => {}
                other => acc.violation(&format!("{}_option:bincode-none", M::NAME), format!("bincode round trip of {}_option(None)", M::NAME), "None".into(), format!("{:?}", other)),
            }
        }
    }
    // reading integers: signed and unsigned JSON numbers, and i64 through the positional format
    for &n in ints {
        let inst = n * unit_ns;
        let want = if inst_ok(inst) && inst_ok(inst + unit_ns - 1) || inst_ok(inst) { Some(inst) } else { None };
        let txt = n.to_string();
        let got = guard(|| serde_json::from_str::<M>(&txt));
        acc.transitions += 1;
        match (&got, want) {
            (Ok(Ok(v)), Some(w)) if v.inst() == w => {
                acc.hit(TS_RD);
                if n > i64::MAX as i128 {
                    acc.hit_nt(TS_U);
                }
            }
            (Ok(Err(_)), None) => acc.hit_nt(TS_REJ),
            _ => acc.violation(&format!("{}:read", M::NAME), format!("serde_json::from_str::<{}>({:?})", M::NAME, txt), match want {
                Some(w) => format!("Ok(instant {} ns)", w),
                None => "Err (outside the representable range)".into(),
            }, format!("{:?}", got)),
        }
        let got = guard(|| serde_json::from_str::<O>(&txt));
        acc.transitions += 1;
        match (&got, want) {
            (Ok(Ok(v)), Some(w)) if v.inst() == Some(w) => {}
            (Ok(Err(_)), None) => {}
            _ => acc.violation(&format!("{}_option:read", M::NAME), format!("serde_json::from_str::<{}_option>({:?})", M::NAME, txt), format!("{:?}", want), format!("{:?}", got)),
        }
        if fits64(n) {
            let bytes = (n as i64).to_le_bytes();
            let got = guard(|| bincode::deserialize::<M>(&bytes));
            acc.transitions += 1;
            match (&got, want) {
                (Ok(Ok(v)), Some(w)) if v.inst() == w => acc.hit(TS_RD),
                (Ok(Err(_)), None) => acc.hit_nt(TS_REJ),
                _ => acc.violation(&format!("{}:read-bincode", M::NAME), format!("bincode::deserialize::<{}>(i64 {})", M::NAME, n), format!("{:?}", want), format!("{:?}", got)),
            }
        }
    }
}

fn rt<T: Serialize + for<'a> Deserialize<'a> + std::fmt::Debug, K: PartialEq + std::fmt::Debug>(acc: &mut Acc, what: &str, v: &T, key: impl Fn(&T) -> K) -> bool {
    let mut ok = true;
    acc.transitions += 2;
    match guard(|| serde_json::to_string(v)) {
        Ok(Ok(s)) => match guard(|| serde_json::from_str::<T>(&s)) {
            Ok(Ok(b)) if key(&b) == key(v) => acc.hit(JSON_RT),
            other => {
                ok = false;
                acc.violation(&format!("{}:json-roundtrip", what), format!("serde_json::from_str::<{}>({:?})", what, s), format!("{:?}", v), format!("{:?}", other))
            }
        },
        other => {
            ok = false;
            acc.violation(&format!("{}:json-serialize", what), format!("serde_json::to_string({:?})", v), "Ok".into(), format!("{:?}", other))
        }
    }
    match guard(|| bincode::serialize(v)) {
        Ok(Ok(b)) => match guard(|| bincode::deserialize::<T>(&b)) {
            Ok(Ok(x)) if key(&x) == key(v) => acc.hit(BIN_RT),
            other => {
                ok = false;
                acc.violation(&format!("{}:bincode-roundtrip", what), format!("bincode round trip of {:?}", v), format!("{:?}", v), format!("{:?}", other))
            }
        },
        other => {
            ok = false;
            acc.violation(&format!("{}:bincode-serialize", what), format!("bincode::serialize({:?})", v), "Ok".into(), format!("{:?}", other))
        }
    }
    ok
}

fn plain_types(acc: &mut Acc, z: i64, times: &[(u32, u32)], offs: &[i32]) {
    let d: NaiveDate = mk_date(z);
    rt(acc, "NaiveDate", &d, |x| *x);
    for &(s, f) in times {
        let ndt = mk_ndt(z, s, f);
        rt(acc, "NaiveDateTime", &ndt, |x| *x);
        if f >= 1_000_000_000 {
            acc.hit_nt(LEAP);
        }
        let u: DateTime<Utc> = Utc.from_utc_datetime(&ndt);
        rt(acc, "DateTime<Utc>", &u, |x| x.naive_utc());
        if (-261_000..=261_000).contains(&civil_from_days(z).0) {
            // the third zone type (whatever zone this process runs in): the instant survives, and the text it writes
            // reads back as the same instant in the other two types
            let l: DateTime<Local> = u.with_timezone(&Local);
            // (a local-mean-time offset with seconds is the listed known finding, judged on DateTime<FixedOffset>)
            if chrono::Offset::fix(l.offset()).local_minus_utc() % 60 == 0 {
                rt(acc, "DateTime<Local>", &l, |x| x.naive_utc());
                acc.transitions += 1;
                if let Ok(Ok(s)) = guard(|| serde_json::to_string(&l)) {
                    let a = guard(|| serde_json::from_str::<DateTime<Utc>>(&s).map(|x| x.naive_utc()));
                    let b = guard(|| serde_json::from_str::<DateTime<FixedOffset>>(&s).map(|x| x.naive_utc()));
                    if !matches!((&a, &b), (Ok(Ok(x)), Ok(Ok(y))) if *x == ndt && *y == ndt) {
                        acc.violation("DateTime<Local>:text-read-as-other-zone-types", format!("serde_json::from_str::<DateTime<Utc>> / <DateTime<FixedOffset>>({:?})", s), format!("{:?}", ndt), format!("{:?} / {:?}", a, b));
                    }
                }
            }
        }
        for &o in offs {
            let fo = FixedOffset::east_opt(o).unwrap();
            let dt: DateTime<FixedOffset> = fo.from_utc_datetime(&ndt);
            let wall_day = z + (s as i64 + o as i64).div_euclid(86400);
            if !day_in_range(wall_day) {
                // the local reading lies in the one-day headroom beyond the range
                acc.hit_nt(HEADROOM);
                let mut a2 = Acc::new(CLASSES.len(), acc.unit);
                let ok = rt(&mut a2, "DateTime<FixedOffset>", &dt, |x| x.naive_utc());
                acc.transitions += a2.transitions;
                if !ok {
                    for v in a2.viol.iter().take(1) {
                        // the known finding is "the text is rejected on the way back"; a panic or a refusal to
                        // serialize is something else
                        let key = if v.key.ends_with("-roundtrip") && v.actual.starts_with("Ok(Err") { "DateTime<FixedOffset>:headroom-roundtrip".to_string() } else { format!("{}:headroom", v.key) };
                        acc.violation(&key, v.call.clone(), v.expected.clone(), v.actual.clone());
                    }
                }
                continue;
            }
            if o % 60 == 0 {
                rt(acc, "DateTime<FixedOffset>", &dt, |x| (x.naive_utc(), x.offset().local_minus_utc()));
                acc.hit(OFFKEPT);
            } else {
                // offset with seconds: only the instant has to survive
                let mut a2 = Acc::new(CLASSES.len(), acc.unit);
                let ok = rt(&mut a2, "DateTime<FixedOffset>", &dt, |x| x.naive_utc());
                acc.transitions += a2.transitions;
                if !ok {
                    for v in a2.viol.iter().take(1) {
                        let key = if v.key.ends_with("-roundtrip") && v.actual.starts_with("Ok(") { "DateTime<FixedOffset>:offset-with-seconds".to_string() } else { format!("{}:offset-with-seconds", v.key) };
                        acc.violation(&key, v.call.clone(), format!("{} (same instant)", v.expected), v.actual.clone());
                    }
                }
                continue;
            }
            // a zone-aware value read as DateTime<Utc> is the same instant
            acc.transitions += 1;
            if let Ok(Ok(s)) = guard(|| serde_json::to_string(&dt)) {
                match guard(|| serde_json::from_str::<DateTime<Utc>>(&s)) {
                    Ok(Ok(b)) if b.naive_utc() == ndt => {}
                    other => acc.violation("DateTime<Utc>:from-offset-form", format!("serde_json::from_str::<DateTime<Utc>>({:?})", s), format!("{:?}", ndt), format!("{:?}", other)),
                }
            }
        }
    }
}

fn main() {
    install_panic_hook();
    let args = parse_args();
    let start = Instant::now();
    if let Err(e) = selftest() {
        machinery(&format!("RefCal self-test failed: {}", e));
    }
    let spec = Spec {
        property: "C20",
        classes: CLASSES,
        required: &["json_roundtrip", "bincode_roundtrip", "ts_written_exact", "ts_read_ok", "ts_read_rejected", "ts_unsigned_path", "ts_negative_floor", "ts_option_none", "nanos_out_of_window", "offset_kept", "leap_value", "headroom_value"],
        rule: "every serializable type over its boundary lattice (dates, times incl. :60, their product, DateTime<Utc>, DateTime<FixedOffset> x boundary offsets incl. offsets with seconds and range-end values whose local reading is in the headroom, the TimeDelta lattice, all weekdays and months) through serde_json (self-describing) and bincode 1.3 (positional); the 16 ts_* modules through #[serde(with)] wrappers: the value lattice must be written as the exact floor timestamp and read back at the module's precision, and every integer of the i64/u64 lattices, unit carries and both range ends +-1 is fed as a JSON number (negative -> signed path, non-negative -> unsigned path, up to u64::MAX) and as a bincode i64: Ok(instant) iff representable, Err otherwise, never a panic; None/null for the option variants",
        assumptions: &["leap seconds cannot be carried by a timestamp (statement); they are only required not to panic there", "for offsets with seconds only the instant is compared (statement)"],
    };
    let tier = args.tier;
    let dates = b_dates(tier);
    let times = b_times_fracs(true);
    let mut offs = b_offsets_small();
    // the hours at which the printed width of the offset's hour field changes, and the last hour
    offs.extend([32_400, -35_940, 36_000, -36_000, 37_800, -39_540, 82_800, -86_340]);
    // value lattice for the ts modules (non-leap instants)
    let mut values: Vec<i128> = vec![];
    for &z in &b_dates_small() {
        for &(s, f) in &b_times(false) {
            values.push(z as i128 * DAY_NS + s as i128 * NS + f as i128);
        }
    }
    for e in [i64::MAX as i128, i64::MIN as i128, i64::MAX as i128 + 1, i64::MIN as i128 - 1, -1, 0, 1, -NS, -NS - 1, -NS + 1, NS - 1, MIN_INST, MAX_INST, MIN_INST + 1, MAX_INST - 1] {
        values.push(e);
    }
    values.retain(|i| inst_ok(*i));
    values.sort();
    values.dedup();
    // integers fed to the readers
    let mut ints: Vec<i128> = lattice(i64::MIN as i128, u64::MAX as i128, 65);
    for per in [1i128, 1000, 1_000_000, 1_000_000_000] {
        for e in [MIN_INST.div_euclid(NS) * per, (MAX_INST.div_euclid(NS) + 1) * per, i64::MAX as i128 / per, i64::MIN as i128 / per] {
            for d in -2i128..=2 {
                ints.push(e + d);
            }
        }
        for k in [0i128, 1, -1, 59, 60, 86399, 86400, -86400, 1_700_000_000, -1_700_000_000, 253_402_300_799, 253_402_300_800] {
            for r in [0i128, 1, -1, per - 1, 1 - per] {
                ints.push(k * per + r);
            }
        }
    }
    // alias classes of the derived day number (a narrowing cast of days-since-CE somewhere below the readers)
    for per in [1i128, 1000, 1_000_000, 1_000_000_000] {
        for k in [1i128, -1, 2, 3] {
            for sh in [31u32, 32, 33] {
                for d in [0i128, 1, -1, CE_OFFSET as i128, 730_000, MAX_DAY as i128 + CE_OFFSET as i128] {
                    let days = k * (1i128 << sh) + d;
                    ints.push((days - CE_OFFSET as i128) * 86400 * per);
                    ints.push(((days - CE_OFFSET as i128) * 86400 + 86399) * per + per - 1);
                }
            }
        }
    }
    ints.retain(|n| *n >= i64::MIN as i128 && *n <= u64::MAX as i128);
    ints.sort();
    ints.dedup();
    // histories of length two over the integers a remembered "last decoded value" could confuse (equal low 64 bits as
    // signed / unsigned, neighbours of the range ends): appended in pair order, after the sorted lattice
    {
        let al: Vec<i128> = vec![-1, u64::MAX as i128, 0, i64::MAX as i128, i64::MAX as i128 + 1, 1 << 32, -(1 << 32), 1, u64::MAX as i128 - 1, i64::MIN as i128, 8_210_266_876_799, 8_210_266_876_800];
        for i in pair_order(al.len()) {
            ints.push(al[i]);
        }
    }
    let deltas: Vec<i128> = {
        let mut v = b_durs();
        v.extend([-500_000_000, -1, -NS - 1, -NS + 1, MAX_DELTA, -MAX_DELTA, 1_500_000_000, -1_500_000_000]);
        v.retain(|x| x.abs() <= MAX_DELTA);
        v.sort();
        v.dedup();
        v
    };
    let nd = dates.len() as u64;
    let only = replay_unit(&args);
    let acc = explore_units(nd + 9, CLASSES.len(), only, |u, acc| {
        if u < nd {
            let z = dates[u as usize];
            let near_end = z - MIN_DAY < 2 || MAX_DAY - z < 2;
            let small = u % 16 == 0 || near_end;
            plain_types(acc, z, if small { &times } else { &times[..6] }, if small { &offs } else { &offs[..3] });
            acc.states += 1;
            acc.traces += 1;
            if u % 307 == 0 {
                acc.sample(|| {
                    let dt = FixedOffset::east_opt(-34200).unwrap().from_utc_datetime(&mk_ndt(z, 86399, 1_500_000_000));
                    format!("{:?} -> {} / {} bincode bytes -> back", dt, serde_json::to_string(&dt).unwrap_or_default(), bincode::serialize(&dt).map(|b| b.len()).unwrap_or(0))
                });
            }
        } else {
            match u - nd {
                0 => ts_module::<US, USO>(acc, &values, &ints),
                1 => ts_module::<NS_, NSO>(acc, &values, &ints),
                2 => ts_module::<UMs, UMsO>(acc, &values, &ints),
                3 => ts_module::<NMs, NMsO>(acc, &values, &ints),
                4 => ts_module::<UUs, UUsO>(acc, &values, &ints),
                5 => ts_module::<NUs, NUsO>(acc, &values, &ints),
                6 => ts_module::<UNs, UNsO>(acc, &values, &ints),
                7 => ts_module::<NNs, NNsO>(acc, &values, &ints),
                _ => {
                    // the serializer is generic over the zone: in a zone whose offset changes (also inside its repeated
                    // hour) the text written carries the value's own instant and offset
                    {
                        use chrono_mc::gfzone::*;
                        let tz = GAPFOLD_2021;
                        for u in zone_starts(tz) {
                            for nano in [0u32, 500_000_000] {
                                let dt = tz.from_utc_datetime(&DateTime::from_timestamp(u, nano).unwrap().naive_utc());
                                acc.transitions += 2;
                                let j = guard(|| serde_json::to_string(&dt).ok().and_then(|s| serde_json::from_str::<DateTime<FixedOffset>>(&s).ok()));
                                let b = guard(|| bincode::serialize(&dt).ok().and_then(|s| bincode::deserialize::<DateTime<FixedOffset>>(&s).ok()));
                                let want = Some((dt.naive_utc(), dt.offset().off));
                                let key = |r: &Result<Option<DateTime<FixedOffset>>, String>| r.as_ref().ok().and_then(|o| o.map(|x| (x.naive_utc(), x.offset().local_minus_utc())));
                                if key(&j) != want || key(&b) != want {
                                    acc.violation("DateTime<zone>:serialize", format!("serde_json / bincode text of [{:?} at offset {}] in a zone with a repeated hour, read as DateTime<FixedOffset>", dt.naive_local(), dt.offset().off), format!("{:?}", want), format!("{:?} / {:?}", j, b));
                                } else {
                                    acc.hit(JSON_RT);
                                }
                            }
                        }
                    }
                    // a serialization that fails half-way (the sink is too small) must not leak into the next one
                    {
                        struct Tiny(usize);
                        impl std::io::Write for Tiny {
                            fn write(&mut self, b: &[u8]) -> std::io::Result<usize> {
                                if b.len() > self.0 {
                                    return Err(std::io::Error::new(std::io::ErrorKind::WriteZero, "full"));
                                }
                                self.0 -= b.len();
                                Ok(b.len())
                            }
                            fn flush(&mut self) -> std::io::Result<()> {
                                Ok(())
                            }
                        }
                        let a = FixedOffset::east_opt(19_800).unwrap().from_utc_datetime(&mk_ndt(days_from_civil(2001, 7, 8), 2099, 26_490_000));
                        let b = FixedOffset::east_opt(-3600).unwrap().from_utc_datetime(&mk_ndt(days_from_civil(1999, 12, 31), 86_399, 0));
                        for cap in [0usize, 1, 5, 12, 20] {
                            acc.transitions += 3;
                            let r1 = guard(|| serde_json::to_writer(Tiny(cap), &a).is_err());
                            let r2 = guard(|| bincode::serialize_into(Tiny(cap), &a).is_err());
                            let after = guard(|| (serde_json::to_string(&b).ok(), bincode::serialize(&b).ok().and_then(|x| bincode::deserialize::<DateTime<FixedOffset>>(&x).ok())));
                            let want = (Some("\"1999-12-31T22:59:59-01:00\"".to_string()), Some(b));
                            if r1 != Ok(true) || r2 != Ok(true) || after != Ok(want.clone()) {
                                acc.violation("DateTime:serialize-after-a-failed-serialization", format!("serializing {:?} into a sink of {} bytes, then {:?} normally", a, cap, b), format!("Err, Err, then {:?}", want), format!("{:?} {:?} {:?}", r1, r2, after));
                            }
                        }
                    }
                    for &(s, f) in &b_times(true) {
                        let t: NaiveTime = mk_time(s, f);
                        rt(acc, "NaiveTime", &t, |x| *x);
                    }
                    for s in (0..86400u32).step_by(61) {
                        rt(acc, "NaiveTime", &mk_time(s, 123_456_789), |x| *x);
                    }
                    for &d in &deltas {
                        let td: TimeDelta = mk_delta(d);
                        rt(acc, "TimeDelta", &td, |x| *x);
                    }
                    for w in [Weekday::Mon, Weekday::Tue, Weekday::Wed, Weekday::Thu, Weekday::Fri, Weekday::Sat, Weekday::Sun] {
                        rt(acc, "Weekday", &w, |x| *x);
                    }
                    let mut m = Month::January;
                    for _ in 0..12 {
                        rt(acc, "Month", &m, |x| *x);
                        m = m.succ();
                    }
                    // leap seconds through the timestamp modules: no panic required
                    let leap = Utc.from_utc_datetime(&mk_ndt(days_from_civil(2016, 12, 31), 86399, 1_500_000_000));
                    for r in [guard(|| serde_json::to_string(&US(leap)).is_ok()), guard(|| serde_json::to_string(&UMs(leap)).is_ok()), guard(|| serde_json::to_string(&UUs(leap)).is_ok()), guard(|| serde_json::to_string(&UNs(leap)).is_ok())] {
                        acc.transitions += 1;
                        if let Err(p) = r {
                            acc.violation("ts_*:leap-panic", "serializing a leap second through a ts_* module".into(), "no panic".into(), p);
                        }
                    }
                }
            }
            acc.states += (values.len() + ints.len()) as u64;
            acc.traces += 1;
            if u == nd {
                acc.sample(|| format!("ts_seconds: {} values written/read back, {} integers read, e.g. \"-1\" -> 1969-12-31T23:59:59Z, \"18446744073709551615\" -> Err", values.len(), ints.len()));
            }
        }
    });
    let extra = Extra {
        bounds: json!({"dates": dates.len(), "times": times.len(), "offsets": offs.len(), "ts_modules": 16, "ts_values": values.len(), "ts_integers": ints.len(), "durations": deltas.len(), "formats": ["serde_json", "bincode 1.3"]}),
        exhaustive: false,
        more: vec![],
    };
    finish(&spec, &args, start, acc, extra);
}
