//! C16 — the TZif and TZ-rule readers accept well-formed data and survive everything else.
//! Shapes P (writer-driven acceptance) + F (structured mutation / truncation / edit enumeration).
use chrono::offset::verif::VerifZone;
use chrono::NaiveDateTime;
use chrono_mc::core::*;
use chrono_mc::lattice::*;
use chrono_mc::refcal::*;
use chrono_mc::reftz::*;
use chrono_mc::zonegen::*;
use serde_json::json;
use std::alloc::{GlobalAlloc, Layout, System};
use std::cell::Cell;
use std::time::Instant;

// ---- allocation monitor: the largest single request made while a reader runs ------------------------
struct Monitor;
thread_local! {
    static WATCH: Cell<bool> = const { Cell::new(false) };
    static MAXREQ: Cell<usize> = const { Cell::new(0) };
}
unsafe impl GlobalAlloc for Monitor {
    unsafe fn alloc(&self, l: Layout) -> *mut u8 {
        let _ = WATCH.try_with(|w| {
            if w.get() {
                let _ = MAXREQ.try_with(|m| {
                    if l.size() > m.get() {
                        m.set(l.size())
                    }
                });
            }
        });
        System.alloc(l)
    }
    unsafe fn dealloc(&self, p: *mut u8, l: Layout) {
        System.dealloc(p, l)
    }
    unsafe fn realloc(&self, p: *mut u8, l: Layout, n: usize) -> *mut u8 {
        let _ = WATCH.try_with(|w| {
            if w.get() {
                let _ = MAXREQ.try_with(|m| {
                    if n > m.get() {
                        m.set(n)
                    }
                });
            }
        });
        System.realloc(p, l, n)
    }
}
#[global_allocator]
static GLOBAL: Monitor = Monitor;

fn watched<T>(f: impl FnOnce() -> T) -> (T, usize) {
    MAXREQ.with(|m| m.set(0));
    WATCH.with(|w| w.set(true));
    let r = f();
    WATCH.with(|w| w.set(false));
    (r, MAXREQ.with(|m| m.get()))
}

const CLASSES: &[&str] = &["accepted_equal", "system_file_equal", "tz_string_equal", "rejected_as_required", "rejected_optional", "accepted_mutant_agrees", "accepted_mutant_other", "truncation", "header_count", "version_byte", "type_index", "abbr_index", "transition_time", "footer_mutant", "tz_edit", "queried_without_panic", "alloc_bounded"];
const ACC_EQ: usize = 0;
const SYS_EQ: usize = 1;
const TZ_EQ: usize = 2;
const REJ_REQ: usize = 3;
const REJ_OPT: usize = 4;
const MUT_AGREE: usize = 5;
const MUT_OTHER: usize = 6;
const TRUNC: usize = 7;
const HDR: usize = 8;
const VER: usize = 9;
const TYI: usize = 10;
const ABI: usize = 11;
const TTIME: usize = 12;
const FOOT: usize = 13;
const TZED: usize = 14;
const QUERIED: usize = 15;
const ALLOC: usize = 16;

const MIN_T: i64 = MIN_DAY * 86400;
const MAX_T: i64 = (MAX_DAY + 1) * 86400 - 1;

/// an accepted zone answers every query without panicking (Ok or Err are both fine)
fn query_all(acc: &mut Acc, what: &dyn Fn() -> String, vz: &VerifZone, trans: &[i64]) {
    let mut ts: Vec<i64> = vec![i64::MIN, i64::MIN + 1, -(1 << 62), MIN_T - 1, MIN_T, MIN_T + 1, -1, 0, 1, 951_782_400, MAX_T - 1, MAX_T, MAX_T + 1, 1 << 62, i64::MAX - 1, i64::MAX];
    for &t in trans.iter().take(24) {
        for d in [-1i64, 0, 1] {
            ts.push(t.saturating_add(d));
        }
    }
    for &t in &ts {
        acc.transitions += 1;
        if let Err(p) = guard(|| vz.offset_at(t).is_ok()) {
            acc.violation("accepted-zone:offset_at-panics", format!("{}: offset_at({})", what(), t), "Ok or Err".into(), format!("panic: {}", p));
            return;
        }
    }
    let mut walls: Vec<NaiveDateTime> = vec![NaiveDateTime::MIN, NaiveDateTime::MAX, mk_ndt(0, 0, 0), mk_ndt(days_from_civil(2023, 1, 15), 43200, 0), mk_ndt(days_from_civil(2023, 7, 15), 43200, 0), mk_ndt(MIN_DAY + 1, 0, 0), mk_ndt(MAX_DAY - 1, 86399, 0)];
    for &t in trans.iter().take(24) {
        for d in [-7200i64, -1, 0, 1, 7200] {
            let w = t.saturating_add(d);
            if w >= MIN_T && w <= MAX_T {
                walls.push(mk_ndt(w.div_euclid(86400), w.rem_euclid(86400) as u32, 0));
            }
        }
    }
    for w in walls {
        acc.transitions += 1;
        if let Err(p) = guard(|| vz.offsets_for_local(w).is_ok()) {
            acc.violation("accepted-zone:offsets_for_local-panics", format!("{}: offsets_for_local({:?})", what(), w), "Ok or Err".into(), format!("panic: {}", p));
            return;
        }
    }
    acc.hit(QUERIED);
}

fn required(r: &Reject) -> bool {
    matches!(r, Reject::Truncated | Reject::BadMagic | Reject::BadVersion | Reject::BadHeaderCounts | Reject::TypeIndexOutOfBounds | Reject::AbbrIndexOutOfBounds | Reject::UnsortedTransitions | Reject::TrailingDataV1 | Reject::BadFooter | Reject::BadDstFlag | Reject::BadIndicators)
}

/// one (possibly mutated) byte string through the reader
fn one_bytes(acc: &mut Acc, label: &dyn Fn() -> String, bytes: &[u8], cls: usize) {
    let want = read_tzif(bytes);
    let (got, maxreq) = watched(|| guard(|| VerifZone::from_tzif(bytes)));
    acc.transitions += 1;
    acc.hit(cls);
    // allocation bounded by the input size (generous constant: the zone keeps usize indices and 16-byte records)
    if maxreq > 64 * bytes.len() + (64 << 10) {
        acc.violation("from_tzif:allocation", format!("{}: VerifZone::from_tzif({} bytes)", label(), bytes.len()), format!("allocations bounded by the input size ({} bytes)", bytes.len()), format!("a single request of {} bytes", maxreq));
    } else {
        acc.hit(ALLOC);
    }
    let got = match got {
        Ok(g) => g,
        Err(p) => {
            acc.violation("from_tzif:panic", format!("{}: VerifZone::from_tzif({} bytes)", label(), bytes.len()), "Ok or Err".into(), format!("panic: {}", p));
            return;
        }
    };
    match (got, want) {
        (Err(_), Err(r)) if required(&r) => acc.hit_nt(REJ_REQ),
        (Err(_), _) => acc.hit_nt(REJ_OPT),
        (Ok(vz), Err(r)) if required(&r) => {
            acc.violation(&format!("from_tzif:accepts-{:?}", r), format!("{}: VerifZone::from_tzif({} bytes)", label(), bytes.len()), format!("Err ({:?})", r), format!("Ok({})", vz.debug().chars().take(200).collect::<String>()));
        }
        (Ok(vz), Ok(z)) => {
            // both accept: the contents must agree
            let d = vz.debug();
            if same_content(acc, &d, &z.debug_string()) {
                acc.hit(MUT_AGREE);
            } else {
                acc.violation("from_tzif:content", format!("{}: VerifZone::from_tzif({} bytes)", label(), bytes.len()), z.debug_string().chars().take(600).collect(), d.chars().take(600).collect());
            }
            let tr: Vec<i64> = z.trans.iter().map(|x| x.0).collect();
            query_all(acc, label, &vz, &tr);
        }
        (Ok(vz), Err(_)) => {
            // leap records or other unjudged content: only survival
            acc.hit(MUT_OTHER);
            query_all(acc, label, &vz, &[0, 951_782_400]);
        }
    }
}

fn put_u32(b: &mut [u8], at: usize, v: u32) {
    b[at..at + 4].copy_from_slice(&v.to_be_bytes());
}

struct Layout2 {
    /// offsets of the two headers (second = None for v1)
    h: Vec<usize>,
    /// for the block that is actually used: positions of the sections
    times: usize,
    time_size: usize,
    ntimes: usize,
    idxs: usize,
    tts: usize,
    ntypes: usize,
    footer: Option<usize>,
}

fn layout(bytes: &[u8]) -> Option<Layout2> {
    let rd = |at: usize| u32::from_be_bytes(bytes[at..at + 4].try_into().unwrap()) as usize;
    if bytes.len() < 44 {
        return None;
    }
    let v1 = bytes[4] == 0;
    let cnt = |h: usize| (rd(h + 20), rd(h + 24), rd(h + 28), rd(h + 32), rd(h + 36), rd(h + 40)); // isut isstd leap time type char
    let (isut, isstd, leap, time, typ, chr) = cnt(0);
    let size1 = 44 + time * 5 + typ * 6 + chr + leap * 8 + isstd + isut;
    if v1 {
        return Some(Layout2 { h: vec![0], times: 44, time_size: 4, ntimes: time, idxs: 44 + time * 4, tts: 44 + time * 5, ntypes: typ, footer: None });
    }
    let h2 = size1;
    if bytes.len() < h2 + 44 {
        return None;
    }
    let (isut, isstd, leap, time, typ, chr) = cnt(h2);
    let end = h2 + 44 + time * 9 + typ * 6 + chr + leap * 12 + isstd + isut;
    Some(Layout2 { h: vec![0, h2], times: h2 + 44, time_size: 8, ntimes: time, idxs: h2 + 44 + time * 8, tts: h2 + 44 + time * 9, ntypes: typ, footer: Some(end) })
}

fn mutate_file(acc: &mut Acc, name: &str, base: &[u8], full_bytes: bool) {
    let lbl = |what: String| move || what.clone();
    // every truncation
    for n in 0..base.len() {
        one_bytes(acc, &lbl(format!("{} truncated to {} bytes", name, n)), &base[..n], TRUNC);
    }
    // trailing garbage
    for extra in [&b"\0"[..], b"x", b"\n", b"\nUTC0\n"] {
        let mut m = base.to_vec();
        m.extend(extra);
        one_bytes(acc, &lbl(format!("{} + {:?}", name, extra)), &m, TRUNC);
    }
    let Some(l) = layout(base) else { return };
    // header fields
    for (hi, &h) in l.h.iter().enumerate() {
        for f in 0..6usize {
            let at = h + 20 + 4 * f;
            let n = u32::from_be_bytes(base[at..at + 4].try_into().unwrap());
            for v in [0u32, 1, n.wrapping_sub(1), n.wrapping_add(1), 255, 1 << 16, 1 << 31, u32::MAX, u32::MAX - 1, n.wrapping_add(1 << 24)] {
                if v == n {
                    continue;
                }
                let mut m = base.to_vec();
                put_u32(&mut m, at, v);
                one_bytes(acc, &lbl(format!("{} header {} count #{} = {}", name, hi, f, v)), &m, HDR);
            }
        }
        for v in 0..=255u8 {
            if v == base[h + 4] {
                continue;
            }
            let mut m = base.to_vec();
            m[h + 4] = v;
            one_bytes(acc, &lbl(format!("{} header {} version byte = {}", name, hi, v)), &m, VER);
        }
        for k in 0..4 {
            let mut m = base.to_vec();
            m[h + k] ^= 0x20;
            one_bytes(acc, &lbl(format!("{} header {} magic byte {} flipped", name, hi, k)), &m, VER);
        }
    }
    // type indices of the transitions
    for k in (0..l.ntimes).take(48) {
        for v in 0..=255u8 {
            if v == base[l.idxs + k] {
                continue;
            }
            let mut m = base.to_vec();
            m[l.idxs + k] = v;
            one_bytes(acc, &lbl(format!("{} transition {} type index = {}", name, k, v)), &m, TYI);
        }
    }
    // ttinfo entries: abbreviation index, isdst, utoff
    for k in 0..l.ntypes.min(16) {
        let e = l.tts + 6 * k;
        for v in 0..=255u8 {
            if v != base[e + 5] {
                let mut m = base.to_vec();
                m[e + 5] = v;
                one_bytes(acc, &lbl(format!("{} type {} abbreviation index = {}", name, k, v)), &m, ABI);
            }
        }
        for v in [2u8, 3, 128, 255] {
            let mut m = base.to_vec();
            m[e + 4] = v;
            one_bytes(acc, &lbl(format!("{} type {} isdst = {}", name, k, v)), &m, ABI);
        }
        for v in [i32::MIN, i32::MIN + 1, -86400, -1, 0, 1, 86400, 1 << 24, i32::MAX - 1, i32::MAX] {
            let mut m = base.to_vec();
            m[e..e + 4].copy_from_slice(&v.to_be_bytes());
            one_bytes(acc, &lbl(format!("{} type {} utoff = {}", name, k, v)), &m, ABI);
        }
    }
    // transition times
    for k in (0..l.ntimes).take(48) {
        let at = l.times + l.time_size * k;
        let vals: Vec<i64> = vec![i64::MIN, i64::MIN + 1, -(1 << 59), -1, 0, 1, 1 << 59, i64::MAX - 1, i64::MAX];
        for v in vals {
            let mut m = base.to_vec();
            if l.time_size == 8 {
                m[at..at + 8].copy_from_slice(&v.to_be_bytes());
            } else {
                m[at..at + 4].copy_from_slice(&(v.clamp(i32::MIN as i64, i32::MAX as i64) as i32).to_be_bytes());
            }
            one_bytes(acc, &lbl(format!("{} transition {} time = {}", name, k, v)), &m, TTIME);
        }
        if k + 1 < l.ntimes {
            let mut m = base.to_vec();
            for j in 0..l.time_size {
                m.swap(at + j, at + l.time_size + j);
            }
            one_bytes(acc, &lbl(format!("{} transitions {} and {} swapped", name, k, k + 1)), &m, TTIME);
            // equal times
            let mut m = base.to_vec();
            let (a, b) = m.split_at_mut(at + l.time_size);
            b[..l.time_size].copy_from_slice(&a[at..at + l.time_size]);
            one_bytes(acc, &lbl(format!("{} transitions {} and {} equal", name, k, k + 1)), &m, TTIME);
        }
    }
    // footer
    if let Some(f) = l.footer {
        if f <= base.len() {
            let head = &base[..f];
            let foot = String::from_utf8_lossy(&base[f..]).to_string();
            let body = foot.trim_matches('\n').to_string();
            let mut variants: Vec<Vec<u8>> = vec![];
            variants.push(format!("{}\n", body).into_bytes()); // missing leading newline
            variants.push(format!("\n{}", body).into_bytes()); // missing trailing newline
            variants.push(format!("\n:{}\n", body).into_bytes());
            variants.push(format!("\n{}\0\n", body).into_bytes());
            variants.push(b"\n\xff\xfe\n".to_vec());
            variants.push(b"\n\n".to_vec());
            variants.push(b"".to_vec());
            variants.push(b"\n".to_vec());
            variants.push(format!("\n {} \n", body).into_bytes());
            variants.push(format!("\n{}\n\n", body).into_bytes());
            let alpha: Vec<char> = "AZ<>+-0159:,./MJ \n\0é".chars().collect();
            let cs: Vec<char> = body.chars().collect();
            for i in 0..=cs.len() {
                for &a in &alpha {
                    let mut x = cs.clone();
                    x.insert(i, a);
                    variants.push(format!("\n{}\n", x.iter().collect::<String>()).into_bytes());
                    if i < cs.len() {
                        let mut y = cs.clone();
                        y[i] = a;
                        variants.push(format!("\n{}\n", y.iter().collect::<String>()).into_bytes());
                    }
                }
                if i < cs.len() {
                    let mut z = cs.clone();
                    z.remove(i);
                    variants.push(format!("\n{}\n", z.iter().collect::<String>()).into_bytes());
                }
            }
            for v in variants {
                let mut m = head.to_vec();
                m.extend(&v);
                one_bytes(acc, &lbl(format!("{} footer replaced by {:?}", name, String::from_utf8_lossy(&v))), &m, FOOT);
            }
        }
    }
    // every byte x a few values (small files only)
    if full_bytes {
        for i in 0..base.len() {
            for v in [0u8, 1, 0x7f, 0x80, 0xff, base[i].wrapping_add(1)] {
                if v != base[i] {
                    let mut m = base.to_vec();
                    m[i] = v;
                    one_bytes(acc, &lbl(format!("{} byte {} = {}", name, i, v)), &m, TRUNC);
                }
            }
        }
    }
}

/// TZ rule strings through `Local`'s own dispatch (names chosen so that no zoneinfo file matches)
fn one_tz(acc: &mut Acc, s: &str, must_accept: bool, cls: usize) {
    let want = parse_tz_string(s.trim_matches(|c: char| c.is_ascii_whitespace()), false);
    let (got, maxreq) = watched(|| guard(|| VerifZone::from_tz(Some(s))));
    acc.transitions += 1;
    acc.hit(cls);
    if maxreq > 64 * s.len() + (256 << 10) {
        acc.violation("from_tz:allocation", format!("VerifZone::from_tz(Some({:?}))", s), "allocations bounded by the input size".into(), format!("a single request of {} bytes", maxreq));
    }
    let got = match got {
        Ok(g) => g,
        Err(p) => {
            acc.violation("from_tz:panic", format!("VerifZone::from_tz(Some({:?}))", s), "Ok or Err".into(), format!("panic: {}", p));
            return;
        }
    };
    match (got, want) {
        (Ok(vz), Some(r)) => {
            let z = RefZone::from_rule(r);
            if !same_content(acc, &vz.debug(), &z.debug_string()) {
                acc.violation("from_tz:content", format!("VerifZone::from_tz(Some({:?}))", s), z.debug_string(), vz.debug());
            } else {
                acc.hit(if must_accept { TZ_EQ } else { MUT_AGREE });
            }
            query_all(acc, &|| format!("TZ={:?}", s), &vz, &[0, 951_782_400]);
        }
        (Err(e), Some(r)) => {
            if must_accept {
                acc.violation("from_tz:rejects-wellformed", format!("VerifZone::from_tz(Some({:?}))", s), format!("Ok({})", r.debug_string()), format!("Err({})", e));
            } else {
                // an edit that still reads as a rule of the two stated forms must be accepted
                acc.violation("from_tz:rejects-wellformed-mutant", format!("VerifZone::from_tz(Some({:?}))", s), format!("Ok({})", r.debug_string()), format!("Err({})", e));
            }
        }
        (Err(_), None) => acc.hit_nt(REJ_OPT),
        (Ok(vz), None) => {
            // not of the stated forms for the reference reader: the statement only asks for survival here
            acc.hit(MUT_OTHER);
            query_all(acc, &|| format!("TZ={:?}", s), &vz, &[0, 951_782_400]);
        }
    }
}

fn tz_grid(acc: &mut Acc, part: u64) {
    // part 0: names / offsets; 1: all M days; 2: all J / n days; 3: times
    let mk = |std_name: &str, std_off: i32, dst: Option<(&str, i32, RuleDay, i32, RuleDay, i32)>| RefRule {
        std: RefType { off: std_off, dst: false, abbr: std_name.into() },
        dst: dst.map(|(n, o, s, st, e, et)| RefDst { ty: RefType { off: o, dst: true, abbr: n.into() }, start: s, start_time: st, end: e, end_time: et }),
    };
    match part {
        0 => {
            for name in ["AAA", "AAAA", "ABCDEFG", "+03", "-03", "+0530", "A1B", "UTC+1-", "abc"] {
                for off in [0i32, 1, -1, 59, 60, 3599, 3600, -3600, 3661, -3661, 19800, -34200, 43200, -43200, 86399, -86399, 86400, -86400] {
                    let r = mk(name, off, None);
                    let s = r.to_tz_string();
                    one_tz(acc, &s, true, TZ_EQ);
                    // explicit plus sign, two-digit hours, full h:mm:ss
                    let a = -(off as i64);
                    let full = format!("{}{}{:02}:{:02}:{:02}", if name.bytes().all(|c| c.is_ascii_alphabetic()) { name.to_string() } else { format!("<{}>", name) }, if a < 0 { "-" } else { "+" }, a.abs() / 3600, a.abs() / 60 % 60, a.abs() % 60);
                    one_tz(acc, &full, true, TZ_EQ);
                    one_tz(acc, &format!("  {}\t", full), true, TZ_EQ);
                    for dn in ["BBB", "+04"] {
                        for doff in [off + 3600, off + 1800, off - 3600, off + 7200] {
                            if doff.abs() > 86400 {
                                continue;
                            }
                            let r = mk(name, off, Some((dn, doff, RuleDay::M { m: 3, w: 2, d: 0 }, 7200, RuleDay::M { m: 11, w: 1, d: 0 }, 7200)));
                            one_tz(acc, &r.to_tz_string(), true, TZ_EQ);
                        }
                    }
                }
            }
        }
        1 => {
            for m in 1..=12u8 {
                for w in 1..=5u8 {
                    for d in 0..=6u8 {
                        let r = mk("AAA", -18000, Some(("BBB", -14400, RuleDay::M { m, w, d }, 7200, RuleDay::M { m: 13 - m, w: 6 - w, d: 6 - d }, 3600)));
                        one_tz(acc, &r.to_tz_string(), true, TZ_EQ);
                    }
                }
            }
        }
        2 => {
            for n in 0..=365u16 {
                if n >= 1 {
                    let r = mk("AAA", 3600, Some(("BBB", 7200, RuleDay::J1(n), 0, RuleDay::J0(365 - n), 86400)));
                    one_tz(acc, &r.to_tz_string(), true, TZ_EQ);
                }
                let r = mk("AAA", 3600, Some(("BBB", 0, RuleDay::J0(n), 5400, RuleDay::J1(366 - n.max(1)), 7200)));
                one_tz(acc, &r.to_tz_string(), true, TZ_EQ);
            }
        }
        _ => {
            for t in (0..=86400i32).step_by(61).chain([1, 59, 60, 3599, 3600, 3601, 86399, 86400]) {
                let r = mk("AAA", 0, Some(("BBB", 3600, RuleDay::M { m: 3, w: 5, d: 0 }, t, RuleDay::J1(300), 86400 - t)));
                one_tz(acc, &r.to_tz_string(), true, TZ_EQ);
            }
        }
    }
}

fn tz_edits(acc: &mut Acc, base: &str, depth2: bool) {
    let alpha: Vec<char> = "AZ<>+-0159:,./MJ \0é".chars().collect();
    let e1 = |cs: &[char]| -> Vec<Vec<char>> {
        let mut out = vec![];
        for i in 0..=cs.len() {
            for &a in &alpha {
                let mut x = cs.to_vec();
                x.insert(i, a);
                out.push(x);
                if i < cs.len() && cs[i] != a {
                    let mut y = cs.to_vec();
                    y[i] = a;
                    out.push(y);
                }
            }
            if i < cs.len() {
                let mut z = cs.to_vec();
                z.remove(i);
                out.push(z);
            }
        }
        out
    };
    let cs: Vec<char> = base.chars().collect();
    let mut buf = String::new();
    for x in e1(&cs) {
        buf.clear();
        buf.extend(x.iter());
        one_tz(acc, &buf, false, TZED);
        if depth2 {
            for y in e1(&x) {
                buf.clear();
                buf.extend(y.iter());
                one_tz(acc, &buf, false, TZED);
            }
        }
    }
}

/// Whether the Debug rendering of chrono's zone has the layout the reference renders (decided once, on two vanilla
/// zones). If a change re-formats that rendering (other field names, extra cached fields, a compact form), the
/// *structural* comparison is switched off for the run instead of being reported: the statement is about what is read,
/// not about how internal types print themselves; acceptance / rejection, survival and allocation stay judged here, and
/// the contents are still judged behaviourally by C05.
static STRUCT_OK: std::sync::atomic::AtomicBool = std::sync::atomic::AtomicBool::new(true);
fn same_content(acc: &mut Acc, impl_debug: &str, reference: &str) -> bool {
    if !STRUCT_OK.load(std::sync::atomic::Ordering::Relaxed) {
        acc.skip("zone Debug layout not recognised: structural comparison skipped (contents judged by C05)");
        return true;
    }
    canon_debug(impl_debug) == canon_debug(reference)
}
fn probe_debug_layout() -> bool {
    let probes = ["AAA-1", "AAA-1BBB,M3.2.0,M11.1.0"];
    for p in probes {
        let Some(r) = parse_tz_string(p, false) else { return false };
        let z = RefZone::from_rule(r);
        match guard(|| VerifZone::from_tz(Some(p))) {
            Ok(Ok(vz)) if canon_debug(&vz.debug()) == canon_debug(&z.debug_string()) => {}
            _ => return false,
        }
    }
    // a table zone: two transitions, two types, no footer
    let z = RefZone { trans: vec![(-1_000_000, 1), (1_000_000, 0)], types: vec![RefType { off: 3600, dst: false, abbr: "AAA".into() }, RefType { off: 7200, dst: true, abbr: "BBB".into() }], rule: None };
    let bytes = write_tzif(&z, 2, chrono_mc::reftz::V1Block::Fat, false);
    match guard(|| VerifZone::from_tzif(&bytes)) {
        Ok(Ok(vz)) => canon_debug(&vz.debug()) == canon_debug(&z.debug_string()),
        _ => false,
    }
}

fn main() {
    install_panic_hook();
    let args = parse_args();
    let start = Instant::now();
    if !probe_debug_layout() {
        STRUCT_OK.store(false, std::sync::atomic::Ordering::Relaxed);
    }
    if let Err(e) = selftest() {
        machinery(&format!("RefCal self-test failed: {}", e));
    }
    let spec = Spec {
        property: "C16",
        classes: CLASSES,
        required: &["accepted_equal", "system_file_equal", "tz_string_equal", "rejected_as_required", "rejected_optional", "accepted_mutant_agrees", "truncation", "header_count", "version_byte", "type_index", "abbr_index", "transition_time", "footer_mutant", "tz_edit", "queried_without_panic", "alloc_bounded"],
        rule: "accept: every bounded zone model (as in C05) written as TZif v1/v2/v3 fat/slim with/without indicators by an independent writer, every system zoneinfo file, footers carrying every kind of rule time (extended version-3 times of both signs with minute / second parts, plain version-2 times), tables of 255..70,000 transitions, and a grid of TZ strings (names incl. quoted forms, offsets h / hh / h:mm:ss with signs, every Mm.w.d, every Jn, every n, rule times) must be accepted and the zone's derived Debug rendering must equal the model (transitions, types, rule); reject / survive: for base files (synthetic in every layout + system files) every truncation length, every header count x extreme values, version byte x 256, magic flips, every transition type index x 256, every abbreviation index x 256, isdst / utoff extremes, transition times x extremes, swaps and duplicates, footer {missing newlines, ':', NUL, non-UTF-8, every 1-edit mutant}, every byte x 6 values on small files; TZ strings: every 1-edit (thorough: 2-edit) mutant of valid rules; a mutant must be rejected iff the independent structural reader rejects it for one of the reasons the statement names; when both accept the contents must agree; every accepted zone is queried at i64 / range extremes and around its transitions in both directions without panicking; the largest single allocation request during a read must stay within 64 x input size + 64 KiB",
        assumptions: &["leap-second records are not judged by the reference reader (files carrying them are only required to be survived)", "name / offset-range / rule-consistency checks beyond the structural rules named in the statement may reject additional mutants (counted as rejected_optional)"],
    };
    let tier = args.tier;
    let files = {
        let mut v = vec![];
        for n in ["UTC", "Etc/GMT+12", "Asia/Kolkata", "America/New_York", "Australia/Lord_Howe", "Europe/London", "Africa/Casablanca", "Pacific/Kiritimati", "America/Sao_Paulo", "Asia/Tehran", "Europe/Dublin", "Antarctica/Troll"] {
            if let Ok(b) = std::fs::read(format!("/usr/share/zoneinfo/{}", n)) {
                v.push((n.to_string(), b));
            }
        }
        v
    };
    // synthetic base files: a spread over layouts and shapes
    let space = synthetic_space();
    let mut synth: Vec<(String, Vec<u8>, RefZone)> = vec![];
    {
        let mut code = 0u64;
        let mut seen_layout = std::collections::BTreeMap::new();
        while code < space && synth.len() < 40 {
            if let Some((z, version, v1, ind)) = synthetic_zones(code, Tier::Thorough) {
                let key = (version, v1 == V1Block::Fat, ind, z.trans.len(), z.rule.as_ref().map(|r| r.dst.is_some()));
                let n = seen_layout.entry(key).or_insert(0u32);
                if *n < 1 {
                    *n += 1;
                    let mut zr = z.clone();
                    if version == 1 {
                        zr.rule = None;
                    }
                    synth.push((format!("synthetic#{}(v{} {:?} ind={})", code, version, v1, ind), write_tzif(&z, version, v1, ind), zr));
                }
            }
            code += 7919;
        }
    }
    let all_sys: Vec<std::path::PathBuf> = {
        let mut out = vec![];
        let mut stack = vec![std::path::PathBuf::from("/usr/share/zoneinfo")];
        while let Some(d) = stack.pop() {
            if let Ok(rd) = std::fs::read_dir(&d) {
                let mut es: Vec<_> = rd.flatten().map(|e| e.path()).collect();
                es.sort();
                for p in es {
                    if p.is_dir() {
                        stack.push(p);
                    } else {
                        out.push(p);
                    }
                }
            }
        }
        out.sort();
        out
    };
    const SYN_CH: u64 = 8192;
    let n_syn = (space + SYN_CH - 1) / SYN_CH;
    let n_sys = ((all_sys.len() + 31) / 32) as u64;
    let tz_bases = ["AAA5BBB,M3.2.0,M11.1.0", "AAA-1BBB-0:30,J60/0,300/24", "<+0530>-5:30", "AAA0", "<-03>3<-02>,M10.1.0/1:30,M2.3.0/0:00:01", "AAA12:59:59BBB,0,365"];
    let n_mut = (files.len() + synth.len()) as u64;
    let only = replay_unit(&args);
    let footers = chrono_mc::zonegen::footer_zones();
    let n_base = n_syn + n_sys + n_mut + 4 + tz_bases.len() as u64;
    let acc = explore_units(n_base + 1, CLASSES.len(), only, |u, acc| {
        if u == n_base {
            // every kind of rule time in a footer: extended version-3 times of both signs with minute and second
            // parts, the plain form in version 2
            for (k, (z, version, v1, ind)) in footers.iter().enumerate() {
                let bytes = write_tzif(z, *version, *v1, *ind);
                if read_tzif(&bytes).as_ref() != Ok(z) {
                    machinery(&format!("RefTzif writer/reader disagree on footer zone {}", k));
                }
                acc.transitions += 1;
                acc.states += 1;
                match guard(|| VerifZone::from_tzif(&bytes)) {
                    Ok(Ok(vz)) => {
                        let d = vz.debug();
                        if same_content(acc, &d, &z.debug_string()) {
                            acc.hit(ACC_EQ);
                        } else {
                            acc.violation("from_tzif:content", format!("zone with footer {} written as TZif v{} {:?} indicators={}", z.rule.as_ref().unwrap().to_tz_string(), version, v1, ind), z.debug_string(), d);
                        }
                        query_all(acc, &|| format!("footer zone #{}", k), &vz, &[0, 951_782_400]);
                    }
                    other => acc.violation("from_tzif:rejects-wellformed", format!("zone with footer {} written as TZif v{} {:?}", z.rule.as_ref().unwrap().to_tz_string(), version, v1), "Ok".into(), format!("{:?}", other.map(|r| r.map(|_| ())))),
                }
            }
            // tables with hundreds and with 2^16 transitions
            for &n in &MANY_COUNTS {
                let (z, version, v1, ind) = many_transition_zone(n);
                let bytes = write_tzif(&z, version, v1, ind);
                if read_tzif(&bytes).as_ref() != Ok(&z) {
                    machinery(&format!("RefTzif writer/reader disagree on the table of {} transitions", n));
                }
                one_bytes(acc, &|| format!("a table of {} daily transitions written as TZif v{}", n, version), &bytes, ACC_EQ);
            }
            acc.traces += 1;
            return;
        }
        if u < n_syn {
            let stride = if tier == Tier::Thorough { 1 } else { 5 };
            let mut code = u * SYN_CH;
            while code < ((u + 1) * SYN_CH).min(space) {
                if let Some((z, version, v1, ind)) = synthetic_zones(code, Tier::Thorough) {
                    let bytes = write_tzif(&z, version, v1, ind);
                    let mut zr = z.clone();
                    if version == 1 {
                        zr.rule = None;
                    }
                    acc.transitions += 1;
                    acc.states += 1;
                    match guard(|| VerifZone::from_tzif(&bytes)) {
                        Ok(Ok(vz)) => {
                            let d = vz.debug();
                            if same_content(acc, &d, &zr.debug_string()) {
                                acc.hit(ACC_EQ);
                            } else {
                                acc.violation("from_tzif:content", format!("synthetic zone #{} written as TZif v{} {:?} indicators={}", code, version, v1, ind), zr.debug_string(), d);
                            }
                        }
                        other => acc.violation("from_tzif:rejects-wellformed", format!("synthetic zone #{} ({:?}) written as TZif v{} {:?}", code, zr, version, v1), "Ok".into(), format!("{:?}", other.map(|r| r.map(|_| ())))),
                    }
                }
                code += stride;
            }
            acc.traces += 1;
        } else if u < n_syn + n_sys {
            let i = (u - n_syn) as usize;
            for p in &all_sys[i * 32..((i + 1) * 32).min(all_sys.len())] {
                let Ok(b) = std::fs::read(p) else { continue };
                if !b.starts_with(b"TZif") {
                    // not a TZif file: must be an error, not a panic
                    one_bytes(acc, &|| format!("{}", p.display()), &b[..b.len().min(4096)], TRUNC);
                    continue;
                }
                acc.transitions += 1;
                acc.states += 1;
                match (guard(|| VerifZone::from_tzif(&b)), read_tzif(&b)) {
                    (Ok(Ok(vz)), Ok(z)) => {
                        if same_content(acc, &vz.debug(), &z.debug_string()) {
                            acc.hit(SYS_EQ);
                        } else {
                            acc.violation("from_tzif:system-content", format!("{}", p.display()), z.debug_string().chars().take(500).collect(), vz.debug().chars().take(500).collect());
                        }
                        let tr: Vec<i64> = z.trans.iter().map(|x| x.0).collect();
                        query_all(acc, &|| format!("{}", p.display()), &vz, &tr);
                    }
                    (Ok(Ok(vz)), Err(Reject::HasLeapRecords)) => query_all(acc, &|| format!("{}", p.display()), &vz, &[0, 951_782_400, 1_483_228_826]),
                    (got, want) => acc.violation("from_tzif:system-file", format!("{}", p.display()), format!("Ok (reference reader: {:?})", want.map(|_| ())), format!("{:?}", got.map(|r| r.map(|_| ())))),
                }
            }
            acc.traces += 1;
        } else if u < n_syn + n_sys + n_mut {
            let i = (u - n_syn - n_sys) as usize;
            if i < files.len() {
                let (name, b) = &files[i];
                mutate_file(acc, name, b, b.len() < 400);
            } else {
                let (name, b, z) = &synth[i - files.len()];
                if read_tzif(b).as_ref() != Ok(z) {
                    machinery(&format!("RefTzif writer/reader disagree on {}", name));
                }
                mutate_file(acc, name, b, true);
            }
            acc.states += 1;
            acc.traces += 1;
            if i % 7 == 0 {
                acc.sample(|| format!("base file {}: every truncation, header count / version / magic mutation, type and abbreviation index x 256, times, footer edits", if i < files.len() { files[i].0.clone() } else { synth[i - files.len()].0.clone() }));
            }
        } else if u < n_syn + n_sys + n_mut + 4 {
            tz_grid(acc, u - n_syn - n_sys - n_mut);
            acc.traces += 1;
        } else {
            let b = tz_bases[(u - n_syn - n_sys - n_mut - 4) as usize];
            one_tz(acc, b, true, TZ_EQ);
            tz_edits(acc, b, tier == Tier::Thorough);
            acc.traces += 1;
            acc.sample(|| format!("TZ string {:?} and every {}-edit mutant over the TZ alphabet", b, if tier == Tier::Thorough { 2 } else { 1 }));
        }
    });
    let _ = (lat_i32().len(), ty(0, false));
    let extra = Extra {
        bounds: json!({"synthetic_zone_codes": space, "system_files": all_sys.len(), "mutated_base_files": n_mut, "tz_bases": tz_bases, "tz_edit_distance": if tier == Tier::Thorough {2} else {1}, "allocation_bound": "64 x input + 64 KiB per request"}),
        exhaustive: false,
        more: vec![],
    };
    finish(&spec, &args, start, acc, extra);
}
