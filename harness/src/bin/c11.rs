//! C11 — RFC 2822: output round-trips, obsolete forms are read as specified. Shapes S (every date 0..=9999) + P (grammar-option product).
use chrono::format::{Fixed, Item, Parsed};
use chrono::{DateTime, FixedOffset, TimeZone};
use chrono_mc::core::*;
use chrono_mc::lattice::*;
use chrono_mc::refcal::*;
use serde_json::json;
use std::fmt::Write as _;
use std::time::Instant;

const CLASSES: &[&str] = &["output_ok", "output_leap", "accepted", "two_digit_year", "three_digit_year", "no_seconds", "named_zone", "military_zone", "comment", "ws_run", "no_weekday", "wrong_weekday_rejected", "second_60"];
const OUT_OK: usize = 0;
const OUT_LEAP: usize = 1;
const ACCEPT: usize = 2;
const Y2: usize = 3;
const Y3: usize = 4;
const NOSEC: usize = 5;
const NAMED: usize = 6;
const MIL: usize = 7;
const COMMENT: usize = 8;
const WSRUN: usize = 9;
const NOWD: usize = 10;
const WRONGWD: usize = 11;
const SEC60: usize = 12;

const WDN: [&str; 7] = ["Mon", "Tue", "Wed", "Thu", "Fri", "Sat", "Sun"];
const MON: [&str; 12] = ["Jan", "Feb", "Mar", "Apr", "May", "Jun", "Jul", "Aug", "Sep", "Oct", "Nov", "Dec"];

const RFC2822_ITEM: [Item<'static>; 1] = [Item::Fixed(Fixed::RFC2822)];

/// the same reader reached through the `Fixed::RFC2822` item (the route `%c`-like composite formats take)
fn parse_via_item(s: &str) -> Result<DateTime<FixedOffset>, chrono::ParseError> {
    let mut p = Parsed::new();
    chrono::format::parse(&mut p, s, RFC2822_ITEM.iter())?;
    p.to_datetime()
}

/// Histories of length two on one thread: strings that are rejected at different depths of the grammar, valid
/// strings, zone names and the military letters they start with, and renderings at +X / -X, in every order.
fn history_pairs(acc: &mut Acc) {
    let texts: [(&str, Option<(i64, i32)>); 14] = [
        ("Wed, 18 Feb 2015 23:16:09 +0000", Some((1_424_301_369, 0))),
        ("18 Feb 2015 23:16 +0000", Some((1_424_301_360, 0))),
        ("Wed, 18 Feb 2015 23:16:09 +0000 trailing", None),
        ("Wed, 18 Feb 2015 23:16:09", None),
        ("Thu, 18 Feb 2015 23:16:09 +0000", None),
        ("Wed, 18 Feb 2015 23:16:09 PST", Some((1_424_330_169, -28_800))),
        ("Wed, 18 Feb 2015 23:16:09 P", Some((1_424_301_369, 0))),
        ("Wed, 18 Feb 2015 23:16:09 MDT", Some((1_424_322_969, -21_600))),
        ("Wed, 18 Feb 2015 23:16:09 MD", None),
        ("Wed, 18 Feb 2015 23:16:09 M", Some((1_424_301_369, 0))),
        ("Wed, 18 Feb 2015 23:16:09 +0530", Some((1_424_281_569, 19_800))),
        ("Wed, 18 Feb 2015 23:16:09 -0530", Some((1_424_321_169, -19_800))),
        ("Wed, 18 Feb 2015 25:16:09 +0000", None),
        ("Wed, 30 Feb 2015 23:16:09 +0000", None),
    ];
    for &i in &pair_order(texts.len()) {
        let (t, want) = texts[i];
        acc.transitions += 2;
        let got = guard(|| DateTime::parse_from_rfc2822(t).ok().map(|d| (d.timestamp(), d.offset().local_minus_utc())));
        let got2 = guard(|| parse_via_item(t).ok().map(|d| (d.timestamp(), d.offset().local_minus_utc())));
        if got != Ok(want) || got2 != Ok(want) {
            acc.violation("parse_from_rfc2822:history", format!("DateTime::parse_from_rfc2822({:?}) after another string was read", t), format!("{:?}", want), format!("{:?} / {:?}", got, got2));
        }
    }
    let mut buf = String::with_capacity(64);
    let outs: [(i64, u32, u32, i32); 8] = [(16_484, 83_769, 0, 19_800), (16_484, 83_769, 0, -19_800), (16_484, 83_769, 0, 0), (16_484, 83_769, 1_000_000_000 - 1_000_000_000, 3600), (16_485, 59, 0, -3600), (10_957, 86_399, 1_000_000_000, 0), (10_957, 86_399, 0, 720), (10_957, 86_399, 0, -720)];
    for &i in &pair_order(outs.len()) {
        let (z, s, f, o) = outs[i];
        output_one(acc, z, s, f, o, &mut buf);
    }
}

/// Long forms of the elements whose length the grammar leaves open: a year of four *or more* digits (zero padded), a run
/// of white space, a comment nested to any depth, a long comment, many comments. Every length up to 300 and the lengths
/// around 2^16 (a count kept in a narrow integer, or a length-limited scan, shows at one of them).
fn long_forms(acc: &mut Acc) {
    let want = Some((1_057_049_557i64, 7200));
    let lens: Vec<usize> = (1..=300usize).chain(65_530..=65_540).collect();
    let one = |acc: &mut Acc, t: &str, what: &dyn Fn() -> String| {
        acc.transitions += 2;
        let got = guard(|| DateTime::parse_from_rfc2822(t).ok().map(|d| (d.timestamp(), d.offset().local_minus_utc())));
        let got2 = guard(|| parse_via_item(t).ok().map(|d| (d.timestamp(), d.offset().local_minus_utc())));
        if got != Ok(want) || got2 != Ok(want) {
            acc.violation("parse_from_rfc2822:long-form", format!("DateTime::parse_from_rfc2822({})", what()), format!("{:?}", want), format!("{:?} / {:?}", got, got2));
        } else {
            acc.hit(ACCEPT);
        }
    };
    for &n in &lens {
        let t = format!("Tue, 1 Jul {}2003 10:52:37 +0200", "0".repeat(n));
        one(acc, &t, &|| format!("\"Tue, 1 Jul <{} zeros>2003 10:52:37 +0200\"", n));
        for pos in 0..5usize {
            let mut parts = vec!["Tue,", "1", "Jul", "2003", "10:52:37", "+0200"].into_iter();
            let mut t = String::from(parts.next().unwrap());
            for (i, p) in parts.enumerate() {
                if i == pos {
                    t.push_str(&" ".repeat(n));
                } else {
                    t.push(' ');
                }
                t.push_str(p);
            }
            one(acc, &t, &|| format!("the standard form with {} spaces at position {}", n, pos));
        }
        let t = format!("Tue, 1 Jul 2003 10:52:37 +0200 {}{}", "(".repeat(n), ")".repeat(n));
        one(acc, &t, &|| format!("the standard form followed by a comment nested {} deep", n));
        let t = format!("Tue, 1 Jul 2003 10:52:37 +0200 {}x{}", "(a".repeat(n), "\\))".repeat(n));
        one(acc, &t, &|| format!("the standard form followed by a comment nested {} deep with text and escapes at every level", n));
        let t = format!("Tue, 1 Jul 2003 10:52:37 +0200 ({})", "x".repeat(n));
        one(acc, &t, &|| format!("the standard form followed by a comment of {} characters", n));
        let t = format!("Tue, 1 Jul 2003 10:52:37 +0200{}", " (a)".repeat(n));
        one(acc, &t, &|| format!("the standard form followed by {} comments", n));
    }
    acc.traces += 1;
}

fn case_variant(s: &str, k: usize) -> String {
    match k {
        0 => s.to_string(),
        1 => s.to_ascii_uppercase(),
        2 => s.to_ascii_lowercase(),
        _ => s.chars().enumerate().map(|(i, c)| if i % 2 == 0 { c.to_ascii_lowercase() } else { c.to_ascii_uppercase() }).collect(),
    }
}

fn output_one(acc: &mut Acc, z: i64, s: u32, f: u32, off: i32, buf: &mut String) {
    let wall = mk_ndt(z, s, f);
    let fo = FixedOffset::east_opt(off).unwrap();
    let Some(dt) = fo.from_local_datetime(&wall).single() else {
        acc.skip("wall clock whose instant is outside the range");
        return;
    };
    let (y, mo, d) = civil_from_days(z);
    let wd = weekday_from_days(z) as usize;
    let leap = f >= 1_000_000_000;
    let txt = match guard(|| dt.to_rfc2822()) {
        Ok(t) => t,
        Err(p) => {
            acc.violation("to_rfc2822:panic", format!("{:?}.to_rfc2822()", dt), "a string (year is within 0..=9999)".into(), format!("panic: {}", p));
            return;
        }
    };
    acc.transitions += 2;
    // form: Www, D Mon YYYY HH:MM:SS +HHMM (D one or two digits)
    buf.clear();
    let _ = write!(buf, "{}, {} {} {:04} {:02}:{:02}:{:02} {}{:02}{:02}", WDN[wd], d, MON[mo as usize - 1], y, s / 3600, s / 60 % 60, s % 60 + leap as u32, if off < 0 { '-' } else { '+' }, off.abs() / 3600, off.abs() / 60 % 60);
    let alt_ok = d < 10 && {
        // a zero-padded day would also be of the stated form
        let mut a = String::with_capacity(40);
        let _ = write!(a, "{}, {:02} {} {:04} {:02}:{:02}:{:02} {}{:02}{:02}", WDN[wd], d, MON[mo as usize - 1], y, s / 3600, s / 60 % 60, s % 60 + leap as u32, if off < 0 { '-' } else { '+' }, off.abs() / 3600, off.abs() / 60 % 60);
        a == txt
    };
    if txt != *buf && !alt_ok {
        acc.violation("to_rfc2822:text", format!("{:?}.to_rfc2822()", dt), buf.clone(), txt.clone());
        return;
    }
    // the item route writes and reads the same text
    acc.transitions += 2;
    buf.clear();
    let w = guard(|| write!(buf, "{}", dt.format_with_items(RFC2822_ITEM.iter())));
    if !matches!(w, Ok(Ok(()))) || *buf != txt {
        acc.violation("Fixed::RFC2822 item:text", format!("{:?}.format_with_items([Fixed::RFC2822])", dt), txt.clone(), format!("{:?} {:?}", buf, w));
    }
    match guard(|| parse_via_item(&txt)) {
        Ok(Ok(p)) if p.offset().local_minus_utc() == off && ndt_parts(p.naive_local()) == (z, s, if leap { 1_000_000_000 } else { 0 }) => {}
        other => acc.violation("Fixed::RFC2822 item:reparse", format!("format::parse(.., {:?}, [Fixed::RFC2822]) then to_datetime()", txt), format!("wall clock {:?} (to whole seconds, leap kept) at offset {}", wall, off), format!("{:?}", other)),
    }
    match DateTime::parse_from_rfc2822(&txt) {
        Ok(p) if p.offset().local_minus_utc() == off && ndt_parts(p.naive_local()) == (z, s, if leap { 1_000_000_000 } else { 0 }) => {
            acc.hit(OUT_OK);
            if leap {
                acc.hit_nt(OUT_LEAP);
            }
        }
        other => acc.violation("to_rfc2822:reparse", format!("DateTime::parse_from_rfc2822({:?})", txt), format!("wall clock {:?} (to whole seconds, leap kept) at offset {}", wall, off), format!("{:?}", other)),
    }
}

struct Zone {
    text: String,
    off: i32,
    cls: usize,
}

fn zones() -> Vec<Zone> {
    let mut v = vec![];
    for o in [0i32, 60, -60, 3540, 3600, -3600, 19800, -34200, 43200, -43200, 50400, 86340, -86340, 7200, -25200, 35100] {
        v.push(Zone { text: format!("{}{:02}{:02}", if o < 0 { '-' } else { '+' }, o.abs() / 3600, o.abs() / 60 % 60), off: o, cls: usize::MAX });
    }
    v.push(Zone { text: "-0000".into(), off: 0, cls: usize::MAX });
    for (n, h) in [("UT", 0), ("GMT", 0), ("EST", -5), ("EDT", -4), ("CST", -6), ("CDT", -5), ("MST", -7), ("MDT", -6), ("PST", -8), ("PDT", -7)] {
        for k in [0usize, 2, 3] {
            v.push(Zone { text: case_variant(n, k), off: h * 3600, cls: NAMED });
        }
    }
    for c in ('A'..='I').chain('K'..='Z') {
        v.push(Zone { text: c.to_string(), off: 0, cls: MIL });
        v.push(Zone { text: c.to_ascii_lowercase().to_string(), off: 0, cls: MIL });
    }
    v
}

fn input_product(acc: &mut Acc, z: i64, s: u32, zs: &[Zone], full_ws: bool) {
    let (y, mo, d) = civil_from_days(z);
    let wd = weekday_from_days(z) as usize;
    let (h, mi, sec) = (s / 3600, s / 60 % 60, s % 60);
    // year forms
    let mut yforms: Vec<(String, usize)> = vec![(format!("{:04}", y), usize::MAX)];
    if (2000..=2049).contains(&y) || (1950..=1999).contains(&y) {
        yforms.push((format!("{:02}", y % 100), Y2));
    }
    if (1900..=2899).contains(&y) {
        yforms.push((format!("{:03}", y - 1900), Y3));
    }
    if y >= 1000 {
        yforms.push((format!("{:05}", y), usize::MAX)); // leading zero, five digits
    }
    let ws_alts = [" ", "  ", "\t "];
    // white-space choices at the 5 positions where the standard form has a space
    let mut ws_sets: Vec<[usize; 5]> = vec![[0; 5]];
    if full_ws {
        for code in 1..3usize.pow(5) {
            let mut c = code;
            let mut a = [0usize; 5];
            for p in 0..5 {
                a[p] = c % 3;
                c /= 3;
            }
            ws_sets.push(a);
        }
    } else {
        for p in 0..5 {
            for alt in 1..3 {
                let mut a = [0usize; 5];
                a[p] = alt;
                ws_sets.push(a);
            }
        }
        ws_sets.push([1; 5]);
        ws_sets.push([2; 5]);
    }
    let comments = ["", " (x)", "(a(b))", " (\\))", " (a) (b c)", "\t(\\()", " ()"];
    let mut buf = String::with_capacity(96);
    for wdk in 0..5usize {
        // 0 absent, 1 as written, 2 upper, 3 lower, 4 mixed
        for dayform in 0..2usize {
            if dayform == 1 && d >= 10 {
                continue;
            }
            for mk in 0..3usize {
                let mname = case_variant(MON[mo as usize - 1], mk);
                for (ytxt, ycls) in &yforms {
                    for secform in 0..3usize {
                        // 0 present, 1 absent, 2 = ":60" (only meaningful on second 59)
                        if secform == 2 && sec != 59 {
                            continue;
                        }
                        for zn in zs {
                            for cm in comments.iter() {
                                for ws in &ws_sets {
                                    buf.clear();
                                    if wdk > 0 {
                                        buf.push_str(&case_variant(WDN[wd], wdk - 1));
                                        buf.push(',');
                                        buf.push_str(ws_alts[ws[0]]);
                                    }
                                    if dayform == 0 {
                                        let _ = write!(buf, "{}", d);
                                    } else {
                                        let _ = write!(buf, "{:02}", d);
                                    }
                                    buf.push_str(ws_alts[ws[1]]);
                                    buf.push_str(&mname);
                                    buf.push_str(ws_alts[ws[2]]);
                                    buf.push_str(ytxt);
                                    buf.push_str(ws_alts[ws[3]]);
                                    let _ = write!(buf, "{:02}:{:02}", h, mi);
                                    match secform {
                                        0 => {
                                            let _ = write!(buf, ":{:02}", sec);
                                        }
                                        1 => {}
                                        _ => buf.push_str(":60"),
                                    }
                                    buf.push_str(ws_alts[ws[4]]);
                                    buf.push_str(&zn.text);
                                    buf.push_str(cm);
                                    let (es, ef) = match secform {
                                        0 => (s, 0u32),
                                        1 => (s - sec, 0),
                                        _ => (s, 1_000_000_000),
                                    };
                                    acc.transitions += 1;
                                    match guard(|| DateTime::parse_from_rfc2822(&buf)) {
                                        Ok(Ok(p)) if p.offset().local_minus_utc() == zn.off && ndt_parts(p.naive_local()) == (z, es, ef) => {
                                            acc.hit(ACCEPT);
                                        }
                                        other => {
                                            acc.violation("parse_from_rfc2822", format!("DateTime::parse_from_rfc2822({:?})", buf), format!("Ok(wall clock day {} sec {} frac {} at offset {})", z, es, ef, zn.off), format!("{:?}", other));
                                            continue;
                                        }
                                    }
                                    acc.transitions += 1;
                                    match guard(|| parse_via_item(&buf)) {
                                        Ok(Ok(p)) if p.offset().local_minus_utc() == zn.off && ndt_parts(p.naive_local()) == (z, es, ef) => {}
                                        other => acc.violation("Fixed::RFC2822 item:parse", format!("format::parse(.., {:?}, [Fixed::RFC2822]) then to_datetime()", buf), format!("Ok(wall clock day {} sec {} frac {} at offset {})", z, es, ef, zn.off), format!("{:?}", other)),
                                    }
                                    if *ycls != usize::MAX {
                                        acc.hit_nt(*ycls);
                                    }
                                    if secform == 1 {
                                        acc.hit_nt(NOSEC);
                                    }
                                    if secform == 2 {
                                        acc.hit_nt(SEC60);
                                    }
                                    if zn.cls != usize::MAX {
                                        acc.hit_nt(zn.cls);
                                    }
                                    if !cm.is_empty() {
                                        acc.hit(COMMENT);
                                    }
                                    if ws.iter().any(|x| *x != 0) {
                                        acc.hit(WSRUN);
                                    }
                                    if wdk == 0 {
                                        acc.hit(NOWD);
                                    }
                                }
                            }
                        }
                    }
                }
            }
        }
    }
    // a weekday that contradicts the date is rejected
    for k in 1..7usize {
        let wrong = WDN[(wd + k) % 7];
        for (ytxt, _) in &yforms {
            for zt in ["+0000", "GMT", "-0500"] {
                buf.clear();
                let _ = write!(buf, "{}, {} {} {} {:02}:{:02}:{:02} {}", wrong, d, MON[mo as usize - 1], ytxt, h, mi, sec, zt);
                acc.transitions += 1;
                match guard(|| DateTime::parse_from_rfc2822(&buf)) {
                    Ok(Err(_)) => acc.hit_nt(WRONGWD),
                    other => acc.violation("parse_from_rfc2822:wrong-weekday", format!("DateTime::parse_from_rfc2822({:?})", buf), "Err (weekday contradicts the date)".into(), format!("{:?}", other)),
                }
            }
        }
    }
}

fn main() {
    install_panic_hook();
    let args = parse_args();
    let start = Instant::now();
    if let Err(e) = selftest() {
        machinery(&format!("RefCal self-test failed: {}", e));
    }
    let spec = Spec {
        property: "C11",
        classes: CLASSES,
        required: &["output_ok", "output_leap", "accepted", "two_digit_year", "three_digit_year", "no_seconds", "named_zone", "military_zone", "comment", "ws_run", "no_weekday", "wrong_weekday_rejected", "second_60"],
        rule: "output: every date of years 0..=9999 (3,652,425) x times (incl. a leap second) x whole-minute offsets: the text has the stated form with the correct weekday and reparses to the same second (leap kept) and offset; plus boundary dates x boundary times x boundary offsets; input: the full product of the grammar's options on 10 base dates — weekday {absent, 4 letter cases} x day {1,2 digits} x month case {3} x year {4-digit, 2-digit where the pivot allows, 3-digit (+1900), 5-digit with leading zero} x seconds {present, absent, :60} x zone {17 numeric, 10 names x 3 cases, 25 military letters x 2 cases} x comment {7 shapes} x white-space runs at the five positions where the standard form has a space (quick: one position at a time and all; thorough: all 3^5 combinations); long forms (zero-padded year, white-space runs at each position, comments nested / filled / repeated: every length up to 300 and around 2^16); every generated string must be accepted with exactly the denoted wall clock and offset; wrong weekday (6 per date) must be rejected",
        assumptions: &["strings outside the generator (other obsolete syntax, arbitrary text) are left to C15's no-panic sweep", "rejection is only required for a contradicting weekday"],
    };
    let tier = args.tier;
    let zs = zones();
    let offs: Vec<i32> = if tier == Tier::Thorough { vec![0, 60, -60, 3600, -3600, 19800, -34200, 50400, -43200, 86340, -86340] } else { vec![0, -60, -1800, -34200, 86340] };
    let times: Vec<(u32, u32)> = if tier == Tier::Thorough { vec![(0, 0), (39157, 500_000_000), (86399, 1_000_000_000), (86399, 999_999_999)] } else { vec![(39157, 999_999_999), (86399, 1_000_000_000), (86399, 1_500_000_000)] };
    const YCH: i64 = 25;
    let n_out = (10000 / YCH) as u64;
    let base: Vec<(i64, u32)> = vec![
        (days_from_civil(2003, 7, 1), 10 * 3600 + 52 * 60 + 37),
        (days_from_civil(1999, 12, 31), 86399),
        (days_from_civil(2049, 1, 5), 0),
        (days_from_civil(1950, 6, 9), 12 * 3600 + 59),
        (days_from_civil(2000, 2, 29), 86340 + 59),
        (days_from_civil(1900, 3, 1), 3600),
        (days_from_civil(2899, 12, 31), 86399),
        (days_from_civil(654, 11, 30), 7 * 3600 + 7 * 60 + 7),
        (days_from_civil(9999, 12, 31), 86399),
        (days_from_civil(2050, 10, 10), 11 * 3600 + 59),
    ];
    let bd: Vec<i64> = b_dates(tier).into_iter().filter(|z| (0..=9999).contains(&civil_from_days(*z).0)).collect();
    let bt = b_times(true);
    let bo: Vec<i32> = b_offsets_small().into_iter().filter(|o| o % 60 == 0).collect();
    let nb = base.len() as u64;
    let nzs = zs.len() as u64;
    let only = replay_unit(&args);
    // units: output year chunks | (base date x zone) | boundary product chunks
    let nbd = ((bd.len() + 15) / 16) as u64;
    let acc = explore_units(n_out + nb * nzs + nbd, CLASSES.len(), only, |u, acc| {
        let mut buf = String::with_capacity(64);
        if u == 0 {
            history_pairs(acc);
        }
        if u == 1 {
            long_forms(acc);
        }
        if u < n_out {
            let y0 = u as i64 * YCH;
            let z0 = days_from_civil(y0, 1, 1);
            let z1 = days_from_civil(y0 + YCH, 1, 1);
            for z in z0..z1 {
                for &(s, f) in &times {
                    for &o in &offs {
                        output_one(acc, z, s, f, o, &mut buf);
                    }
                }
                acc.states += 1;
            }
            acc.traces += 1;
            if u % 57 == 0 {
                acc.sample(|| {
                    let dt = FixedOffset::east_opt(-34200).unwrap().from_local_datetime(&mk_ndt(z0 + 59, 86399, 1_000_000_000)).unwrap();
                    format!("{:?}.to_rfc2822() = {:?}", dt, dt.to_rfc2822())
                });
            }
        } else if u < n_out + nb * nzs {
            let i = u - n_out;
            let (z, s) = base[(i / nzs) as usize];
            let zi = (i % nzs) as usize;
            input_product(acc, z, s, &zs[zi..zi + 1], tier == Tier::Thorough);
            acc.states += 1;
            acc.traces += 1;
            if i % 131 == 0 {
                acc.sample(|| format!("base date {:?} zone {:?}: full grammar-option product, e.g. \"tUE,  1\\t JUL 103 10:52 {}(a(b))\"", mk_date(z), zs[zi].text, zs[zi].text));
            }
        } else {
            let i = (u - n_out - nb * nzs) as usize;
            for &z in &bd[i * 16..((i + 1) * 16).min(bd.len())] {
                for &(s, f) in &bt {
                    for &o in &bo {
                        output_one(acc, z, s, f, o, &mut buf);
                    }
                }
                acc.states += 1;
            }
            acc.traces += 1;
        }
    });
    let extra = Extra {
        bounds: json!({"output_dates": 3652425, "output_times": times.len(), "output_offsets": offs.len(), "base_dates": base.len(), "zones": zs.len(), "whitespace_combinations": if tier == Tier::Thorough {243} else {13}, "comments": 7}),
        exhaustive: false,
        more: vec![("exhaustive_over".into(), json!("every date of years 0..=9999 (output side)"))],
    };
    finish(&spec, &args, start, acc, extra);
}
