//! C18 — Local uses the zone the environment names, and notices changes.
//! Shape H: every event history up to a length bound over a 17-event menu, executed on the real `Local`
//! (public API) with the guarded mock clock; `TZ` is process-global, so histories are split over child processes.
use chrono::offset::verif::set_mock_now;
use chrono::{Local, MappedLocalTime, NaiveDateTime, Offset, TimeZone};
use chrono_mc::core::*;
use chrono_mc::lattice::*;
use chrono_mc::refcal::*;
use chrono_mc::reftz::*;
use serde_json::json;
use stateright::{Checker, Model, Property};
use std::sync::mpsc;
use std::time::{Instant, SystemTime, UNIX_EPOCH};

const CLASSES: &[&str] = &["conversion", "stale_allowed", "reloaded", "fresh_thread", "second_thread", "fallback_zone", "file_zone", "rule_zone", "changed_within_window", "public_clock_replay", "other_system_zone"];
const OTHERSYS: usize = 10;
const CONV: usize = 0;
const STALE: usize = 1;
const RELOAD: usize = 2;
const FRESH: usize = 3;
const SECOND: usize = 4;
const FALLBACK: usize = 5;
const FILEZ: usize = 6;
const RULEZ: usize = 7;
const WINDOW: usize = 8;
const PUBCLOCK: usize = 9;

type Sig = [i64; 4];

fn probe_points() -> (NaiveDateTime, NaiveDateTime) {
    (mk_ndt(days_from_civil(2023, 1, 15), 43200, 0), mk_ndt(days_from_civil(2023, 7, 15), 43200, 0))
}

/// what one conversion observes: 4 probes inside one logical step
fn observe() -> Sig {
    let (jan, jul) = probe_points();
    let a = Local.offset_from_utc_datetime(&jan).fix().local_minus_utc() as i64;
    let b = Local.offset_from_utc_datetime(&jul).fix().local_minus_utc() as i64;
    let f = |m: MappedLocalTime<chrono::DateTime<Local>>| match m {
        MappedLocalTime::Single(d) => d.naive_utc().and_utc().timestamp(),
        MappedLocalTime::Ambiguous(d, _) => d.naive_utc().and_utc().timestamp() + 1,
        MappedLocalTime::None => -1,
    };
    let c = f(Local.from_local_datetime(&jan));
    let d = f(Local.from_local_datetime(&jul));
    // the first probe of each direction once more at the end: the next conversion then starts with the very call this
    // one ended with (a one-entry memo of "the last lookup" survives exactly that), and one conversion must not
    // answer the same question in two ways
    let a2 = Local.offset_from_utc_datetime(&jan).fix().local_minus_utc() as i64;
    let c2 = f(Local.from_local_datetime(&jan));
    if a2 != a || c2 != c {
        return [a, b, -777, a2 ^ c2];
    }
    [a, b, c, d]
}

fn sig_of(z: &RefZone) -> Sig {
    let (jan, jul) = probe_points();
    let tj = ndt_inst(jan).div_euclid(NS) as i64;
    let tl = ndt_inst(jul).div_euclid(NS) as i64;
    let w = |t: i64| {
        let s = z.instants_of_wall(t);
        match s.len() {
            1 => s[0],
            0 => -1,
            _ => s[0] + 1,
        }
    };
    [z.offset_at(tj) as i64, z.offset_at(tl) as i64, w(tj), w(tl)]
}

fn utc_zone() -> RefZone {
    RefZone { trans: vec![], types: vec![RefType { off: 0, dst: false, abbr: "UTC".into() }], rule: None }
}

struct Env {
    /// TZ settings of the menu (None = unset)
    tz: Vec<Option<String>>,
    /// zone each setting denotes in this system configuration
    zone: Vec<RefZone>,
    sig: Vec<Sig>,
    kind: Vec<usize>,
    decoy: Sig,
}

fn file_zone(path: &str) -> Option<RefZone> {
    read_tzif(&std::fs::read(path).ok()?).ok()
}

fn build_env(work: &std::path::Path, create: bool) -> Env {
    // a private copy of a zone under an absolute path, and a decoy with a zoneinfo-relative name in the cwd
    let zone_a = work.join("ZoneA");
    if create {
        std::fs::copy("/usr/share/zoneinfo/America/New_York", &zone_a).unwrap_or_else(|e| machinery(&format!("cannot copy zone file: {}", e)));
        let _ = std::fs::create_dir_all(work.join("cwd/Europe"));
        let _ = std::fs::copy("/usr/share/zoneinfo/Asia/Tokyo", work.join("cwd/Europe/Paris"));
        let _ = std::fs::copy("/usr/share/zoneinfo/Asia/Tokyo", work.join("cwd/AAA-3"));
        // a readable file that is not a TZif file
        let _ = std::fs::write(work.join("Junk"), vec![b'x'; 300]);
    }
    let sys = file_zone("/etc/localtime").unwrap_or_else(utc_zone);
    let ny = file_zone(zone_a.to_str().unwrap()).unwrap_or_else(|| machinery("reference reader cannot read America/New_York"));
    let paris = file_zone("/usr/share/zoneinfo/Europe/Paris").unwrap_or_else(|| machinery("reference reader cannot read Europe/Paris"));
    let rule = |s: &str| RefZone::from_rule(parse_tz_string(s, false).unwrap());
    let a = zone_a.to_str().unwrap().to_string();
    let settings: Vec<(Option<String>, RefZone, usize)> = vec![
        (None, sys.clone(), FALLBACK),
        (Some("".into()), utc_zone(), FALLBACK),
        (Some(format!(":{}", a)), ny.clone(), FILEZ),
        (Some(a.clone()), ny.clone(), FILEZ),
        (Some("Europe/Paris".into()), paris.clone(), FILEZ),
        (Some(":Europe/Paris".into()), paris.clone(), FILEZ),
        (Some("AAA-3".into()), rule("AAA-3"), RULEZ),
        (Some(":AAA-3".into()), sys.clone(), FALLBACK), // a colon means "file": no such zoneinfo file, so the system zone
        (Some("AAA4BBB,M3.2.0,M11.1.0".into()), rule("AAA4BBB,M3.2.0,M11.1.0"), RULEZ),
        (Some("!!garbage".into()), sys.clone(), FALLBACK),
        (Some(":/nonexistent/zone".into()), sys.clone(), FALLBACK),
        // a value that differs from an earlier one only by white space is not the same setting (a name with a trailing
        // space names no file and is no rule, so the system zone), and a change between the two must be noticed
        (Some("Europe/Paris ".into()), sys.clone(), FALLBACK),
        // a readable file that cannot be parsed: the system zone, and nothing of it may stick to the thread
        (Some(format!(":{}", work.join("Junk").to_str().unwrap())), sys.clone(), FALLBACK),
    ];
    let tokyo = file_zone("/usr/share/zoneinfo/Asia/Tokyo").map(|z| sig_of(&z)).unwrap_or([0; 4]);
    Env { tz: settings.iter().map(|s| s.0.clone()).collect(), sig: settings.iter().map(|s| sig_of(&s.1)).collect(), kind: settings.iter().map(|s| s.2).collect(), zone: settings.into_iter().map(|s| s.1).collect(), decoy: tokyo }
}

fn set_tz(v: &Option<String>) {
    match v {
        Some(s) => std::env::set_var("TZ", s),
        None => std::env::remove_var("TZ"),
    }
}

struct Worker {
    req: mpsc::Sender<()>,
    resp: mpsc::Receiver<Result<Sig, String>>,
}
fn spawn_worker() -> Worker {
    let (rt, rr) = mpsc::channel::<()>();
    let (st, sr) = mpsc::channel();
    std::thread::spawn(move || {
        while rr.recv().is_ok() {
            let _ = st.send(guard(observe));
        }
    });
    Worker { req: rt, resp: sr }
}

const NTZ: usize = 13;
// events: 0..NTZ set TZ to that setting; then +0.6 s; +1.0 s; convert on A; convert on B; convert on a fresh thread;
// and "+1.0 s and then convert on A" as one event
const E_W06: usize = NTZ;
const E_W10: usize = NTZ + 1;
const E_CA: usize = NTZ + 2;
const E_CB: usize = NTZ + 3;
const E_CF: usize = NTZ + 4;
const E_WCA: usize = NTZ + 5;
const NEV: usize = NTZ + 6;

fn event_name(env: &Env, e: usize) -> String {
    match e {
        _ if e < NTZ => format!("TZ={:?}", env.tz[e]),
        E_W06 => "+0.6s".into(),
        E_W10 => "+1.0s".into(),
        E_CA => "convert@A".into(),
        E_CB => "convert@B".into(),
        E_CF => "convert@fresh".into(),
        _ => "+1.0s,convert@A".into(),
    }
}

/// run one history from scratch on fresh worker threads; the reference is evaluated alongside
fn run_history(acc: &mut Acc, env: &Env, hist: &[usize], base_ns: u64, initial: usize, primed: bool, real_clock: bool, states: &mut std::collections::BTreeSet<(usize, u8, u8, u8)>) {
    run_history_obs(acc, env, hist, base_ns, initial, primed, real_clock, states, None)
}

#[allow(clippy::too_many_arguments)]
fn run_history_obs(acc: &mut Acc, env: &Env, hist: &[usize], base_ns: u64, initial: usize, primed: bool, real_clock: bool, states: &mut std::collections::BTreeSet<(usize, u8, u8, u8)>, mut obs: Option<&mut Vec<Sig>>) {
    set_tz(&env.tz[initial]);
    let mut now: u64 = 0; // ns since the start of the history
    if !real_clock {
        set_mock_now(Some(base_ns));
    }
    // (time, setting) changes of TZ
    let mut changes: Vec<(i64, usize)> = vec![(i64::MIN, initial)]; // the initial setting has been there 'forever'
    let mut workers: [Option<Worker>; 2] = [None, None];
    let mut first_use: [bool; 2] = [true, true];
    let started = Instant::now();
    if primed {
        // start from a non-initial state: thread A already holds a cache built under the initial setting
        let w = workers[0].get_or_insert_with(spawn_worker);
        let _ = w.req.send(());
        let _ = w.resp.recv();
        first_use[0] = false;
    }
    for (step, &e) in hist.iter().enumerate() {
        acc.transitions += 1;
        if !real_clock {
            // events are sequential: a microsecond passes between any two of them
            now += 1_000;
            set_mock_now(Some(base_ns + now));
        }
        match e {
            _ if e < NTZ => {
                set_tz(&env.tz[e]);
                if real_clock {
                    now = started.elapsed().as_nanos() as u64;
                }
                changes.push((now as i64, e));
            }
            E_W06 | E_W10 => {
                let d = if e == E_W06 { 600_000_000 } else { 1_000_000_000 };
                if real_clock {
                    std::thread::sleep(std::time::Duration::from_nanos(d + 30_000_000));
                    now = started.elapsed().as_nanos() as u64;
                } else {
                    now += d;
                    set_mock_now(Some(base_ns + now));
                }
            }
            _ => {
                if e == E_WCA {
                    // compound event: wait one second, then convert on A
                    if real_clock {
                        std::thread::sleep(std::time::Duration::from_millis(1030));
                    } else {
                        now += 1_000_000_000;
                        set_mock_now(Some(base_ns + now));
                    }
                }
                let t_before = if real_clock { started.elapsed().as_nanos() as u64 } else { now };
                let (got, fresh) = match e {
                    E_CA | E_CB | E_WCA => {
                        let i = if e == E_CB { 1 } else { 0 };
                        let w = workers[i].get_or_insert_with(spawn_worker);
                        let _ = w.req.send(());
                        let r = w.resp.recv().unwrap_or(Err("worker thread died".into()));
                        let f = first_use[i];
                        first_use[i] = false;
                        (r, f)
                    }
                    _ => (std::thread::spawn(|| guard(observe)).join().unwrap_or(Err("fresh thread died".into())), true),
                };
                let t_after = if real_clock { started.elapsed().as_nanos() as u64 } else { now };
                let cur = changes.last().unwrap().1;
                // settings held at some moment within the last second before the conversion (all of them for a
                // thread's first conversion: exactly the current one)
                let mut allowed: Vec<usize> = vec![cur];
                if !fresh {
                    let lo = t_before as i64 - 1_000_000_000;
                    for k in 0..changes.len() {
                        let from = changes[k].0;
                        let to = if k + 1 < changes.len() { changes[k + 1].0 } else { i64::MAX };
                        // held during [from, to): intersects (lo, t_after] ?
                        if to > lo && from < to && from <= t_after as i64 {
                            allowed.push(changes[k].1);
                        }
                    }
                }
                allowed.sort();
                allowed.dedup();
                let call = || format!("history [initial TZ={:?}{}; {}] step {} ({})", env.tz[initial], if primed { ", thread A already converted once" } else { "" }, hist.iter().map(|x| event_name(env, *x)).collect::<Vec<_>>().join("; "), step, event_name(env, e));
                match got {
                    Err(p) => acc.violation("conversion:panic", call(), "a conversion".into(), format!("panic: {}", p)),
                    Ok(sig) => {
                        if let Some(o) = obs.as_deref_mut() {
                            o.push(sig);
                        }
                        let matches_cur = sig == env.sig[cur];
                        let ok = allowed.iter().any(|&a| env.sig[a] == sig);
                        if !ok {
                            let which = if sig == env.decoy { "the decoy file in the current directory".to_string() } else if let Some(j) = (0..NTZ).find(|&j| env.sig[j] == sig) { format!("the zone of TZ={:?}", env.tz[j]) } else { "no zone of the menu (mixed / unknown)".to_string() };
                            acc.violation(if fresh { "conversion:fresh-thread-wrong-zone" } else if allowed.len() == 1 { "conversion:stale-after-1s" } else { "conversion:wrong-zone" }, call(), format!("the zone of one of {:?}", allowed.iter().map(|&a| env.tz[a].clone()).collect::<Vec<_>>()), format!("{} (signature {:?})", which, sig));
                        } else {
                            acc.hit(CONV);
                            acc.hit(env.kind[cur]);
                            if env.kind[cur] == FALLBACK && env.sig[0] != sig_of(&utc_zone()) && cur != 1 {
                                acc.hit_nt(OTHERSYS);
                            }
                            if fresh {
                                acc.hit(FRESH);
                            }
                            if e == E_CB {
                                acc.hit(SECOND);
                            }
                            if allowed.len() > 1 {
                                acc.hit_nt(WINDOW);
                                if !matches_cur {
                                    acc.hit_nt(STALE);
                                }
                            } else if changes.len() > 1 && !fresh {
                                acc.hit_nt(RELOAD);
                            }
                            if real_clock {
                                acc.hit(PUBCLOCK);
                            }
                        }
                    }
                }
                states.insert((cur, first_use[0] as u8, first_use[1] as u8, (allowed.len() > 1) as u8));
            }
        }
    }
    acc.traces += 1;
}

fn decode(mut idx: u64, len: usize) -> Vec<usize> {
    // the last event is always a conversion (3 choices), the others range over the whole menu
    let mut h = vec![0usize; len];
    h[len - 1] = E_CA + (idx % 4) as usize;
    idx /= 4;
    for k in (0..len - 1).rev() {
        h[k] = (idx % NEV as u64) as usize;
        idx /= NEV as u64;
    }
    h
}
fn count(len: usize) -> u64 {
    4 * (NEV as u64).pow(len as u32 - 1)
}


// ---- second engine: the same event system as a stateright model ------------------------------------------
// A state is the event history reaching it (the real cache cannot be cloned, so every state is rebuilt by
// re-executing its history on fresh threads of this process); `ok` is the verdict of the last event.
#[derive(Clone, Debug, PartialEq, Eq, Hash)]
struct HistState {
    events: Vec<u8>,
    ok: bool,
}
struct HistModel {
    env: Env,
    base_ns: u64,
    depth: usize,
}
impl Model for HistModel {
    type State = HistState;
    type Action = u8;
    fn init_states(&self) -> Vec<HistState> {
        vec![HistState { events: vec![], ok: true }]
    }
    fn actions(&self, s: &HistState, out: &mut Vec<u8>) {
        if s.events.len() < self.depth {
            out.extend(0..NEV as u8);
        }
    }
    fn next_state(&self, s: &HistState, a: u8) -> Option<HistState> {
        let mut ev = s.events.clone();
        ev.push(a);
        let ok = if a as usize >= E_CA {
            let h: Vec<usize> = ev.iter().map(|x| *x as usize).collect();
            let mut acc = Acc::new(CLASSES.len(), 0);
            let mut st = std::collections::BTreeSet::new();
            run_history(&mut acc, &self.env, &h, self.base_ns, 0, true, false, &mut st);
            acc.viol_total == 0
        } else {
            true
        };
        Some(HistState { events: ev, ok })
    }
    fn properties(&self) -> Vec<Property<Self>> {
        vec![Property::<Self>::always("every conversion shows a zone the statement allows", |_, s| s.ok)]
    }
}

fn stateright_main(depth: usize) -> ! {
    let work = verif_dir().join("target").join("c18work");
    let env = build_env(&work, false);
    let _ = std::env::set_current_dir(work.join("cwd"));
    let base_ns = SystemTime::now().duration_since(UNIX_EPOCH).unwrap().as_nanos() as u64 + 10_000_000_000;
    let checker = HistModel { env, base_ns, depth }.checker().threads(1).spawn_bfs().join();
    set_mock_now(None);
    let found = checker.discovery("every conversion shows a zone the statement allows").map(|p| format!("{:?}", p.into_actions()));
    println!("C18SR {}", json!({"unique_states": checker.unique_state_count(), "max_depth": checker.max_depth(), "counterexample": found}));
    std::process::exit(0)
}

fn worker_main(spec_arg: &str, tier: Tier) -> ! {
    if let Some(d) = spec_arg.strip_prefix("sr/") {
        stateright_main(d.parse().unwrap_or(3));
    }
    // "i/n/len/replay"
    let p: Vec<&str> = spec_arg.split('/').collect();
    let (i, n, maxlen): (u64, u64, usize) = (p[0].parse().unwrap(), p[1].parse().unwrap(), p[2].parse().unwrap());
    let real = p.get(3) == Some(&"real");
    let work = verif_dir().join("target").join("c18work");
    let env = build_env(&work, false);
    let _ = std::env::set_current_dir(work.join("cwd"));
    let base_ns = SystemTime::now().duration_since(UNIX_EPOCH).unwrap().as_nanos() as u64 + 10_000_000_000;
    let mut acc = Acc::new(CLASSES.len(), i);
    let mut states = std::collections::BTreeSet::new();
    if !real {
        // the harness must own every source of nondeterminism: the same history observed twice gives the same trace
        let h = [2usize, E_CA, 6, E_W06, E_CA, E_W10, E_CB, E_WCA, E_CF];
        let mut o1 = vec![];
        let mut o2 = vec![];
        let mut scratch = Acc::new(CLASSES.len(), i);
        run_history_obs(&mut scratch, &env, &h, base_ns, 0, true, false, &mut states, Some(&mut o1));
        run_history_obs(&mut scratch, &env, &h, base_ns, 0, true, false, &mut states, Some(&mut o2));
        if o1 != o2 || o1.len() != 5 {
            machinery(&format!("determinism self-test failed: the same history gave {:?} and then {:?}", o1, o2));
        }
        states.clear();
    }
    if real {
        // hook-free conformance replay with real sleeps: a deterministic stride of short histories
        let total = count(3);
        let want = if tier == Tier::Thorough { 16 } else { 2 };
        let mut k = i;
        let mut done = 0;
        while k < total && done < want {
            let idx = (k * 7919) % total;
            let h = decode(idx, 3);
            if h.iter().any(|e| *e == E_W06 || *e == E_W10) && h.iter().any(|e| *e < NTZ) {
                run_history(&mut acc, &env, &h, base_ns, 6, done % 2 == 1, true, &mut states);
                done += 1;
            }
            k += n;
        }
    } else {
        for len in 1..=maxlen {
            let total = count(len);
            let mut idx = i;
            while idx < total {
                let h = decode(idx, len);
                // two initial settings: unset and a rule zone
                for primed in [false, true] {
                    run_history(&mut acc, &env, &h, base_ns, (idx % 2 * 6) as usize, primed, false, &mut states);
                }
                idx += n;
            }
        }
        set_mock_now(None);
    }
    acc.states = states.len() as u64;
    let out = json!({
        "transitions": acc.transitions, "traces": acc.traces, "nontrivial": acc.nontrivial, "states": acc.states, "cls": acc.cls, "viol_total": acc.viol_total, "state_list": states.iter().map(|s| json!([s.0, s.1, s.2, s.3])).collect::<Vec<_>>(),
        "viol": acc.viol.iter().map(|v| json!({"key": v.key, "call": v.call, "expected": v.expected, "actual": v.actual})).collect::<Vec<_>>(),
    });
    println!("C18WORKER {}", out);
    std::process::exit(0)
}

fn main() {
    install_panic_hook();
    let args = parse_args();
    if let Some(w) = &args.worker {
        worker_main(w, args.tier);
    }
    let start = Instant::now();
    if let Err(e) = selftest() {
        machinery(&format!("RefCal self-test failed: {}", e));
    }
    let spec = Spec {
        property: "C18",
        classes: CLASSES,
        required: &["conversion", "reloaded", "fresh_thread", "second_thread", "fallback_zone", "file_zone", "rule_zone", "changed_within_window", "public_clock_replay"],
        rule: "one process, the real Local through its public API, two persistent worker threads (each with its own thread-local cache) plus fresh-thread conversions; event menu of 19: set TZ to one of 13 values {unset, empty, :/abs/file, /abs/file, zoneinfo-relative name, :name, fixed POSIX rule, the same rule behind a colon, alternating POSIX rule, garbage, :/nonexistent, the name with a trailing space, :/abs/readable-but-unparsable file}, advance the (guarded, mock) clock by 0.6 s or 1.0 s, convert on thread A / B / a fresh thread (a conversion probes 4 fixed instants in both directions inside one step, so its zone signature is observed); ALL event sequences of length <= k ending in a conversion, from four start states (initial TZ unset / a rule, thread A with or without an existing cache), each executed from scratch; oracle: the signature must be exactly that of one zone, namely the zone of a TZ value held at some moment within the last second before the conversion (exactly the current value for a thread's first conversion or when nothing changed for >= 1 s); a decoy file with a zoneinfo-relative name sits in the working directory; a stride of histories is replayed without the clock seam, with real sleeps",
        assumptions: &["no preemption inside a conversion (getenv/setenv are not interceptable and concurrent use is undefined behaviour)", "the system zone of this sandbox is Etc/UTC, so 'system zone' and the final UTC fallback are observationally equal; private mount namespaces with another /etc/localtime are attempted in the thorough tier and skipped with a note if unshare is refused"],
    };
    let only = replay_unit(&args);
    let nproc: u64 = 16;
    let maxlen = if args.tier == Tier::Thorough { 6 } else { 5 };
    let work = verif_dir().join("target").join("c18work");
    let _ = std::fs::create_dir_all(work.join("cwd"));
    let _ = build_env(&work, true); // create the files once, before the workers start
    let exe = std::env::current_exe().unwrap_or_else(|e| machinery(&format!("current_exe: {}", e)));
    let mut children = vec![];
    let tier_s = if args.tier == Tier::Thorough { "thorough" } else { "quick" };
    for i in 0..nproc {
        if let Some(u) = only {
            if u != i {
                continue;
            }
        }
        for mode in ["mock", "real"] {
            let w = if mode == "real" { format!("{}/{}/{}/real", i, nproc, maxlen) } else { format!("{}/{}/{}", i, nproc, maxlen) };
            let c = std::process::Command::new(&exe).args(["--worker", &w, "--tier", tier_s]).env_remove("TZ").stdout(std::process::Stdio::piped()).stderr(std::process::Stdio::piped()).spawn().unwrap_or_else(|e| machinery(&format!("cannot start worker: {}", e)));
            children.push((i, c));
        }
    }
    // other system-zone configurations in private mount namespaces (skipped with a note if unshare is refused)
    let mut ns_note: Vec<String> = vec![];
    if only.is_none() {
        let etc = work.join("etc");
        let ns_len = if args.tier == Tier::Thorough { 4 } else { 3 };
        for (cfg, setup) in [("localtime->Asia/Kolkata", "ln -sf /usr/share/zoneinfo/Asia/Kolkata $d/localtime; rm -f $d/timezone"), ("no /etc/localtime", "rm -f $d/localtime $d/timezone")] {
            let nsp = 4u64;
            let mut started = 0;
            for i in 0..nsp {
                let script = format!("d={}; mkdir -p $d && mount -t tmpfs tmpfs $d && cp -a /etc/. $d/ && {} && mount --bind $d /etc && exec {} --worker {}/{}/{} --tier {}", etc.display(), setup, exe.display(), i, nsp, ns_len, tier_s);
                match std::process::Command::new("unshare").args(["-m", "sh", "-c", &script]).env_remove("TZ").stdout(std::process::Stdio::piped()).stderr(std::process::Stdio::piped()).spawn() {
                    Ok(c) => {
                        children.push((100 + i, c));
                        started += 1;
                    }
                    Err(e) => ns_note.push(format!("{}: unshare could not be started ({})", cfg, e)),
                }
            }
            if started > 0 {
                ns_note.push(format!("{}: {} worker processes in a private mount namespace, all histories of length <= {}", cfg, started, ns_len));
            }
        }
    }
    let mut acc = Acc::new(CLASSES.len(), 0);
    let mut all_states = std::collections::BTreeSet::new();
    for (i, c) in children {
        let out = c.wait_with_output().unwrap_or_else(|e| machinery(&format!("worker {}: {}", i, e)));
        let txt = String::from_utf8_lossy(&out.stdout);
        let Some(line) = txt.lines().find(|l| l.starts_with("C18WORKER ")) else {
            if i >= 100 {
                ns_note.push(format!("namespace worker {} gave no result (unshare/mount refused?): {}", i, String::from_utf8_lossy(&out.stderr).chars().take(160).collect::<String>()));
                continue;
            }
            machinery(&format!("worker {} produced no result (status {:?}): {}", i, out.status, String::from_utf8_lossy(&out.stderr).chars().take(400).collect::<String>()));
        };
        let v: serde_json::Value = serde_json::from_str(&line[10..]).unwrap_or_else(|e| machinery(&format!("worker {} output: {}", i, e)));
        let mut a = Acc::new(CLASSES.len(), i);
        a.transitions = v["transitions"].as_u64().unwrap_or(0);
        a.traces = v["traces"].as_u64().unwrap_or(0);
        a.nontrivial = v["nontrivial"].as_u64().unwrap_or(0);
        a.states = v["states"].as_u64().unwrap_or(0);
        a.viol_total = v["viol_total"].as_u64().unwrap_or(0);
        for (k, c) in v["cls"].as_array().cloned().unwrap_or_default().iter().enumerate() {
            a.cls[k] = c.as_u64().unwrap_or(0);
        }
        for x in v["viol"].as_array().cloned().unwrap_or_default() {
            a.viol.push(Violation { key: x["key"].as_str().unwrap_or("").into(), call: x["call"].as_str().unwrap_or("").into(), expected: x["expected"].as_str().unwrap_or("").into(), actual: x["actual"].as_str().unwrap_or("").into(), unit: i });
        }
        for st in v["state_list"].as_array().cloned().unwrap_or_default() {
            all_states.insert(st.to_string());
        }
        a.states = 0;
        acc.merge(a);
    }
    acc.states = all_states.len() as u64;
    // second engine (stateright BFS over the same event system, in its own process)
    let sr_depth = 3usize;
    let mut second = json!({"skipped": "replay mode"});
    if only.is_none() {
        let out = std::process::Command::new(&exe).args(["--worker", &format!("sr/{}", sr_depth), "--tier", tier_s]).env_remove("TZ").output().unwrap_or_else(|e| machinery(&format!("cannot start the stateright worker: {}", e)));
        let txt = String::from_utf8_lossy(&out.stdout);
        let Some(line) = txt.lines().find(|l| l.starts_with("C18SR ")) else { machinery(&format!("stateright worker produced no result: {}", String::from_utf8_lossy(&out.stderr).chars().take(300).collect::<String>())) };
        let v: serde_json::Value = serde_json::from_str(&line[6..]).unwrap_or_else(|e| machinery(&format!("stateright worker output: {}", e)));
        // every event sequence of length <= depth is one state (histories are not merged), plus the empty one
        let expect: u64 = (0..=sr_depth as u32).map(|k| (NEV as u64).pow(k)).sum();
        let got = v["unique_states"].as_u64().unwrap_or(0);
        if let Some(cx) = v["counterexample"].as_str() {
            acc.violation("stateright:counterexample", format!("stateright BFS counterexample (event numbers): {}", cx), "no conversion outside the allowed zones".into(), "found".into());
        } else if got != expect && acc.viol.is_empty() {
            machinery(&format!("explorer self-check failed: stateright visited {} states, expected {}", got, expect));
        }
        second = json!({"engine": "stateright 0.31 spawn_bfs (1 thread: TZ is process-global)", "depth": sr_depth, "unique_states": got, "expected_event_sequences": expect, "histories_ending_in_a_conversion": (1..=sr_depth).map(count).sum::<u64>(), "counts_equal": got == expect});
    }
    acc.samples.push(format!("history: TZ=\"AAA-3\"; convert@A; TZ=\":{}/ZoneA\"; +0.4s; convert@A (old or new zone); +1.0s; convert@A (must be New_York)", work.display()));
    let total: u64 = (1..=maxlen).map(count).sum();
    let extra = Extra {
        bounds: json!({"event_menu": NEV, "tz_settings": NTZ, "max_history_length": maxlen, "histories": total, "worker_processes": nproc, "start_states": 4, "system_zone": std::fs::read_link("/etc/localtime").map(|p| p.display().to_string()).unwrap_or_else(|_| "none".into())}),
        exhaustive: true,
        more: vec![("exhaustive_over".into(), json!(format!("all event sequences of length <= {} that end in a conversion", maxlen))), ("second_engine".into(), second), ("system_zone_configurations".into(), json!(ns_note))],
    };
    finish(&spec, &args, start, acc, extra);
}
