//! C03 — adding and subtracting elapsed time is exact or refused, never wrapped.
//! Shapes H (depth-2 chains over boundary seeds x boundary durations) + S (all dates x day steps, iterators).
use chrono::{Datelike, DateTime, Days, FixedOffset, NaiveDate, NaiveDateTime, TimeDelta, TimeZone};
use chrono_mc::core::*;
use chrono_mc::lattice::*;
use chrono_mc::refcal::*;
use serde_json::json;
use std::collections::BTreeSet;
use std::sync::Mutex;
use std::time::Instant;

const CLASSES: &[&str] = &["exact", "refused_out_of_range", "operator_panics", "day_truncation", "day_count_refused", "crosses_year", "crosses_400y", "iter_exhausted", "range_end_reached", "depth2", "offset_pair", "sibling_exact", "sibling_panics"];
const EXACT: usize = 0;
const REFUSED: usize = 1;
const OP_PANIC: usize = 2;
const DAYTRUNC: usize = 3;
const DAYREF: usize = 4;
const XYEAR: usize = 5;
const X400: usize = 6;
const ITER_END: usize = 7;
const RANGE_END: usize = 8;
const DEPTH2: usize = 9;
const OFFPAIR: usize = 10;
const SIB: usize = 11;
const SIB_PANIC: usize = 12;

fn inst_ok(i: i128) -> bool {
    i >= MIN_INST && i <= MAX_INST
}

fn show(i: i128) -> String {
    let z = i.div_euclid(DAY_NS) as i64;
    let r = i.rem_euclid(DAY_NS);
    let (y, m, d) = civil_from_days(z);
    format!("{}-{:02}-{:02}T{:02}:{:02}:{:02}.{:09}", y, m, d, r / NS / 3600, r / NS / 60 % 60, r / NS % 60, r % NS)
}

/// one (state, duration) step on NaiveDateTime; returns the reachable successor instants
fn step_ndt(acc: &mut Acc, inst: i128, d: i128, out: Option<&mut BTreeSet<i128>>) {
    let s = mk_ndt_inst(inst);
    let td = mk_delta(d);
    let mut outs = out;
    for (neg, name) in [(false, "checked_add_signed"), (true, "checked_sub_signed")] {
        let target = if neg { inst - d } else { inst + d };
        let got = if neg { s.checked_sub_signed(td) } else { s.checked_add_signed(td) };
        acc.transitions += 1;
        match (got, inst_ok(target)) {
            (Some(r), true) => {
                if r != mk_ndt_inst(target) {
                    acc.violation(&format!("NaiveDateTime::{}:value", name), format!("NaiveDateTime({}).{}(TimeDelta({} ns))", show(inst), name, d), show(target), format!("{:?}", r));
                    continue;
                }
                acc.hit(EXACT);
                if target.div_euclid(DAY_NS) != inst.div_euclid(DAY_NS) {
                    let (y0, _, _) = civil_from_days(inst.div_euclid(DAY_NS) as i64);
                    let (y1, _, _) = civil_from_days(target.div_euclid(DAY_NS) as i64);
                    if y0 != y1 {
                        acc.hit_nt(XYEAR);
                        if y0.div_euclid(400) != y1.div_euclid(400) {
                            acc.hit(X400);
                        }
                    }
                }
                if target == MIN_INST || target == MAX_INST {
                    acc.hit_nt(RANGE_END);
                }
                // the distance back is exact, and adding it returns the start
                acc.transitions += 3;
                let dist = r.signed_duration_since(s);
                if delta_ns(dist) != target - inst || (r - s) != dist {
                    acc.violation("NaiveDateTime::signed_duration_since", format!("NaiveDateTime({}).signed_duration_since(NaiveDateTime({}))", show(target), show(inst)), format!("{} ns", target - inst), format!("{:?} = {} ns", dist, delta_ns(dist)));
                }
                if s.checked_add_signed(dist) != Some(r) {
                    acc.violation("NaiveDateTime:b+(a-b)", format!("b + (a - b) with a = {}, b = {}", show(target), show(inst)), show(target), format!("{:?}", s.checked_add_signed(dist)));
                }
                if r.cmp(&s) != target.cmp(&inst) {
                    acc.violation("NaiveDateTime::cmp", format!("NaiveDateTime({}).cmp(NaiveDateTime({}))", show(target), show(inst)), format!("{:?}", target.cmp(&inst)), format!("{:?}", r.cmp(&s)));
                }
                if let Some(o) = outs.as_deref_mut() {
                    o.insert(target);
                }
            }
            (None, false) => acc.hit_nt(REFUSED),
            (Some(r), false) => acc.violation(&format!("NaiveDateTime::{}:wraps", name), format!("NaiveDateTime({}).{}(TimeDelta({} ns))", show(inst), name, d), "None (instant not representable)".into(), format!("Some({:?})", r)),
            (None, true) => acc.violation(&format!("NaiveDateTime::{}:refuses-exact", name), format!("NaiveDateTime({}).{}(TimeDelta({} ns))", show(inst), name, d), show(target), "None".into()),
        }
        // operator form
        let op = guard(|| if neg { s - td } else { s + td });
        acc.transitions += 1;
        match (op, got) {
            (Ok(v), Some(r)) if v == r => {}
            (Err(_), None) => acc.hit(OP_PANIC),
            (op, got) => acc.violation("NaiveDateTime:operator-vs-checked", format!("NaiveDateTime({}) {} TimeDelta({} ns)", show(inst), if neg { "-" } else { "+" }, d), format!("{:?}", got), format!("{:?}", op)),
        }
    }
}

/// judge one sibling form: the value of the exact instant, or a panic exactly when that instant is not representable
fn sib<T: PartialEq + std::fmt::Debug>(acc: &mut Acc, key: &'static str, got: Result<T, String>, want: Option<T>, call: impl FnOnce() -> String) {
    acc.transitions += 1;
    match (got, want) {
        (Ok(v), Some(w)) if v == w => acc.hit(SIB),
        (Err(_), None) => acc.hit(SIB_PANIC),
        (got, want) => acc.violation(key, call(), match &want { Some(w) => format!("{:?}", w), None => "panic (result not representable)".into() }, format!("{:?}", got)),
    }
}

/// The less-travelled forms of the same additions: assign operators, std::time::Duration operands, FixedOffset operands,
/// Days operands on date-times, and the NaiveDate forms; each must produce the exact instant or panic (refusal by
/// these forms is documented as a panic) exactly when the instant is not representable.
fn siblings(acc: &mut Acc, inst: i128, d: i128, offs: &[i32]) {
    let s = mk_ndt_inst(inst);
    let td = mk_delta(d);
    let ndt = |i: i128| if inst_ok(i) { Some(mk_ndt_inst(i)) } else { None };
    let fo0 = FixedOffset::east_opt(offs[1 % offs.len()]).unwrap();
    let dt = fo0.from_utc_datetime(&s);
    let dtv = |i: i128| ndt(i).map(|n| fo0.from_utc_datetime(&n));
    for neg in [false, true] {
        let target = if neg { inst - d } else { inst + d };
        let sign = if neg { "-=" } else { "+=" };
        sib(acc, "NaiveDateTime:assign-TimeDelta", guard(|| { let mut x = s; if neg { x -= td } else { x += td }; x }), ndt(target), || format!("x = NaiveDateTime({}); x {} TimeDelta({} ns)", show(inst), sign, d));
        sib(acc, "DateTime:assign-TimeDelta", guard(|| { let mut x = dt; if neg { x -= td } else { x += td }; x }).map(|x| (x, x.offset().local_minus_utc())), dtv(target).map(|x| (x, fo0.local_minus_utc())), || format!("x = DateTime({}Z at {}); x {} TimeDelta({} ns)", show(inst), fo0, sign, d));
        if d >= 0 && d / NS <= u64::MAX as i128 {
            let sd = std::time::Duration::new((d / NS) as u64, (d % NS) as u32);
            sib(acc, "NaiveDateTime:op-std-Duration", guard(|| if neg { s - sd } else { s + sd }), ndt(target), || format!("NaiveDateTime({}) {} std Duration({} ns)", show(inst), &sign[..1], d));
            sib(acc, "NaiveDateTime:assign-std-Duration", guard(|| { let mut x = s; if neg { x -= sd } else { x += sd }; x }), ndt(target), || format!("x = NaiveDateTime({}); x {} std Duration({} ns)", show(inst), sign, d));
            sib(acc, "DateTime:op-std-Duration", guard(|| if neg { dt - sd } else { dt + sd }), dtv(target), || format!("DateTime({}Z at {}) {} std Duration({} ns)", show(inst), fo0, &sign[..1], d));
            sib(acc, "DateTime:assign-std-Duration", guard(|| { let mut x = dt; if neg { x -= sd } else { x += sd }; x }), dtv(target), || format!("x = DateTime({}Z at {}); x {} std Duration({} ns)", show(inst), fo0, sign, d));
        }
        // whole days through Days on the date-time forms (the time of day is kept; wall clock = UTC + offset)
        if d >= 0 && d % DAY_NS == 0 && d / DAY_NS <= u64::MAX as i128 {
            let n = (d / DAY_NS) as u64;
            let want = ndt(target);
            sib(acc, "NaiveDateTime:op-Days", guard(|| if neg { s - Days::new(n) } else { s + Days::new(n) }), want, || format!("NaiveDateTime({}) {} Days::new({})", show(inst), &sign[..1], n));
            acc.transitions += 1;
            let c = if neg { s.checked_sub_days(Days::new(n)) } else { s.checked_add_days(Days::new(n)) };
            if c != want {
                acc.violation("NaiveDateTime::checked_add_days", format!("NaiveDateTime({}).checked_{}_days(Days::new({}))", show(inst), if neg { "sub" } else { "add" }, n), format!("{:?}", want), format!("{:?}", c));
            }
            // the zone-aware forms at offset zero (wall clock = UTC, so the result is the exact instant or a refusal)
            let u = chrono::Utc.from_utc_datetime(&s);
            let wantu = want.map(|x| chrono::Utc.from_utc_datetime(&x));
            acc.transitions += 1;
            let cu = guard(|| if neg { u.checked_sub_days(Days::new(n)) } else { u.checked_add_days(Days::new(n)) });
            if cu.as_ref().ok() != Some(&wantu) {
                acc.violation("DateTime<Utc>::checked_add_days", format!("DateTime<Utc>({}Z).checked_{}_days(Days::new({}))", show(inst), if neg { "sub" } else { "add" }, n), format!("{:?}", wantu), format!("{:?}", cu));
            }
            sib(acc, "DateTime<Utc>:op-Days", guard(|| if neg { u - Days::new(n) } else { u + Days::new(n) }), wantu, || format!("DateTime<Utc>({}Z) {} Days::new({})", show(inst), &sign[..1], n));
        }
        // the date forms: whole days of the duration, time untouched
        let z = inst.div_euclid(DAY_NS);
        let date = mk_date(z as i64);
        let whole = if d >= 0 { d / DAY_NS } else { -((-d) / DAY_NS) };
        let tz = if neg { z - whole } else { z + whole };
        let wantd = if tz >= MIN_DAY as i128 && tz <= MAX_DAY as i128 { Some(mk_date(tz as i64)) } else { None };
        sib(acc, "NaiveDate:assign-TimeDelta", guard(|| { let mut x = date; if neg { x -= td } else { x += td }; x }), wantd, || format!("x = NaiveDate({:?}); x {} TimeDelta({} ns)", date, sign, d));
    }
    // std::time::Duration operands beyond what a TimeDelta can hold: never representable, so these forms must panic
    // (once per state)
    if d == 0 {
        for big in [u64::MAX, 1 << 63, (1 << 63) - 1, i64::MAX as u64 / 1000 + 1, (1 << 32) * 86_400, ((MAX_INST - MIN_INST) / NS) as u64 + 1] {
            let sd = std::time::Duration::new(big, 0);
            sib(acc, "NaiveDateTime:op-std-Duration:huge", guard(|| s + sd), None, || format!("NaiveDateTime({}) + std Duration({} s)", show(inst), big));
            sib(acc, "NaiveDateTime:op-std-Duration:huge", guard(|| s - sd), None, || format!("NaiveDateTime({}) - std Duration({} s)", show(inst), big));
            sib(acc, "DateTime:op-std-Duration:huge", guard(|| dt + sd), None, || format!("DateTime({}Z at {}) + std Duration({} s)", show(inst), fo0, big));
            sib(acc, "DateTime:op-std-Duration:huge", guard(|| dt - sd), None, || format!("DateTime({}Z at {}) - std Duration({} s)", show(inst), fo0, big));
        }
    }
    // FixedOffset operands: a shift by the offset's seconds
    for &o in offs {
        let fo = FixedOffset::east_opt(o).unwrap();
        for neg in [false, true] {
            let target = if neg { inst - o as i128 * NS } else { inst + o as i128 * NS };
            sib(acc, "NaiveDateTime:op-FixedOffset", guard(|| if neg { s - fo } else { s + fo }), ndt(target), || format!("NaiveDateTime({}) {} FixedOffset({})", show(inst), if neg { "-" } else { "+" }, fo));
            sib(acc, "DateTime:op-FixedOffset", guard(|| if neg { dt - fo } else { dt + fo }).map(|x| (x, x.offset().local_minus_utc())), dtv(target).map(|x| (x, fo0.local_minus_utc())), || format!("DateTime({}Z at {}) {} FixedOffset({})", show(inst), fo0, if neg { "-" } else { "+" }, fo));
            acc.transitions += 2;
            let c = if neg { s.checked_sub_offset(fo) } else { s.checked_add_offset(fo) };
            if c != ndt(target) {
                acc.violation("NaiveDateTime::checked_add_offset", format!("NaiveDateTime({}).checked_{}_offset({})", show(inst), if neg { "sub" } else { "add" }, fo), format!("{:?}", ndt(target)), format!("{:?}", c));
            }
        }
    }
}

/// Day and week iterators driven from both ends in every order (all sequences of next / next_back up to length 6):
/// whatever the order, every date handed out is a real date, two consecutive `next` results are one step apart (and
/// two consecutive `next_back` results one step back), and the length hint is exact (compared with actually running
/// a copy of the iterator to its end, near the upper range limit).
fn iterator_histories(acc: &mut Acc) {
    let mut starts: Vec<i64> = vec![MIN_DAY, MIN_DAY + 1, MIN_DAY + 8, MAX_DAY, MAX_DAY - 1, MAX_DAY - 6, MAX_DAY - 7, MAX_DAY - 8, MAX_DAY - 15, MAX_DAY - 40];
    for y in [2022i64, 2023, 2024, 2025, 0, -1, 1] {
        for d in [-8i64, -7, -2, -1, 0, 1, 2, 7] {
            starts.push(days_from_civil(y, 1, 1) + d);
        }
        starts.push(days_from_civil(y, 3, 1));
        starts.push(days_from_civil(y, 2, 28));
    }
    for &z0 in &starts {
        for weeks in [false, true] {
            let step: i64 = if weeks { 7 } else { 1 };
            for len in 1..=6u32 {
                for mask in 0..(1u32 << len) {
                    let d0 = mk_date(z0);
                    let mut days = d0.iter_days();
                    let mut wks = d0.iter_weeks();
                    let mut prev: Option<(bool, i64)> = None;
                    let mut bad: Option<String> = None;
                    for k in 0..len {
                        let back = mask >> k & 1 == 1;
                        let item = match (weeks, back) {
                            (false, false) => days.next(),
                            (false, true) => days.next_back(),
                            (true, false) => wks.next(),
                            (true, true) => wks.next_back(),
                        };
                        acc.transitions += 1;
                        let Some(x) = item else {
                            prev = None;
                            continue;
                        };
                        let n = x.num_days_from_ce();
                        if NaiveDate::from_num_days_from_ce_opt(n) != Some(x) || NaiveDate::from_ymd_opt(x.year(), x.month(), x.day()) != Some(x) {
                            bad = Some(format!("step {} handed out {:?}, which is not a real date", k, x));
                            break;
                        }
                        if let Some((pb, pn)) = prev {
                            if pb == back && (n as i64 - pn) != if back { -step } else { step } {
                                bad = Some(format!("step {} handed out {:?}, {} days from the previous item of the same direction", k, x, n as i64 - pn));
                                break;
                            }
                        }
                        prev = Some((back, n as i64));
                    }
                    if bad.is_none() && MAX_DAY - z0 <= 60 {
                        acc.transitions += 1;
                        let (hint, real) = if weeks { (wks.size_hint(), wks.clone().count()) } else { (days.size_hint(), days.clone().count()) };
                        if hint != (real, Some(real)) || (if weeks { wks.len() } else { days.len() }) != real {
                            bad = Some(format!("size_hint {:?} after the sequence, but a copy of the iterator then yields {} items", hint, real));
                        }
                    }
                    if let Some(b) = bad {
                        acc.violation(if weeks { "iter_weeks:history" } else { "iter_days:history" }, format!("NaiveDate({:?}).{}() driven by the sequence {} (0 = next, 1 = next_back, first call first)", d0, if weeks { "iter_weeks" } else { "iter_days" }, (0..len).map(|k| if mask >> k & 1 == 1 { '1' } else { '0' }).collect::<String>()), "real dates, one step apart per direction, exact length hint".into(), b);
                    } else {
                        acc.hit(SIB);
                    }
                }
            }
        }
    }
    // differences asked in alternation between operands whose year differs by 2^16 (same day of the year), by a
    // 400-year cycle, and by one: a remembered right-hand side must not answer for another one
    let bs: Vec<i64> = vec![days_from_civil(2024, 6, 1), days_from_civil(2024 + 65_536, 6, 1), days_from_civil(2024 - 65_536, 6, 1), days_from_civil(2424, 6, 1), days_from_civil(2025, 6, 1), days_from_civil(2023, 6, 2), days_from_civil(2024, 5, 31)];
    let a = days_from_civil(2000, 1, 1);
    for &i in &pair_order(bs.len()) {
        let (x, b) = (mk_ndt(a, 3600, 5), mk_ndt(bs[i], 7200, 7));
        let want = (a - bs[i]) as i128 * DAY_NS - 3600 * NS - 2;
        acc.transitions += 3;
        let got = [delta_ns(x - b), delta_ns(x.signed_duration_since(b)), -delta_ns(b - x), delta_ns(x.date() - b.date()) - 0];
        let want_all = [want, want, want, (a - bs[i]) as i128 * DAY_NS];
        if got != want_all {
            acc.violation("NaiveDateTime:difference:history", format!("{:?} - {:?} [operator, signed_duration_since, reversed, dates only] after other subtractions", x, b), format!("{:?}", want_all), format!("{:?}", got));
        }
    }
}

/// Elapsed-time arithmetic on zone-aware values in a zone whose offset changes (chrono_mc::gfzone): every form lands on
/// the exact instant (at the zone's offset there), whatever the wall clock does in between.
fn changing_zone(acc: &mut Acc) {
    use chrono_mc::gfzone::*;
    let tz = GAPFOLD_2021;
    for u in zone_starts(tz) {
        for nano in [0u32, 999_999_999] {
            let dt = tz.from_utc_datetime(&DateTime::from_timestamp(u, nano).unwrap().naive_utc());
            for delta in [0i64, 1, 59, 1800, 3599, 3600, 3601, 5400, 7200, 86_399, 86_400, 90_000, 7 * 86_400, 217 * 86_400, 400 * 86_400] {
                for neg in [false, true] {
                    let td = TimeDelta::seconds(delta);
                    let sd = std::time::Duration::from_secs(delta as u64);
                    let t = if neg { u - delta } else { u + delta };
                    let want = (t, nano, tz.offset_at(t));
                    let key = |x: DateTime<Gz>| (x.naive_utc().and_utc().timestamp(), x.naive_utc().and_utc().timestamp_subsec_nanos(), x.offset().off);
                    let got = guard(|| {
                        let (mut a, mut b) = (dt, dt);
                        if neg {
                            a -= td;
                            b -= sd;
                            [dt.checked_sub_signed(td).map(key), Some(key(dt - td)), Some(key(dt - sd)), Some(key(a)), Some(key(b))]
                        } else {
                            a += td;
                            b += sd;
                            [dt.checked_add_signed(td).map(key), Some(key(dt + td)), Some(key(dt + sd)), Some(key(a)), Some(key(b))]
                        }
                    });
                    acc.transitions += 5;
                    if got != Ok([Some(want); 5]) {
                        acc.violation("DateTime<zone>:elapsed-time", format!("[instant {} s .{:09} at offset {}] {} {} s in a zone with a skipped and a repeated hour [checked, operator, std Duration operator, assign, std Duration assign]", u, nano, dt.offset().off, if neg { "-" } else { "+" }, delta), format!("{:?}", want), format!("{:?}", got));
                    } else {
                        acc.hit(SIB);
                    }
                    // the distance back is the elapsed time, also across the offset change
                    if let Ok([Some(_), ..]) = got {
                        let r = if neg { dt - td } else { dt + td };
                        acc.transitions += 1;
                        let dist = [r.signed_duration_since(dt), r - dt, r.with_timezone(&chrono::Utc).signed_duration_since(dt)];
                        if dist.iter().any(|d| delta_ns(*d) != (t - u) as i128 * NS) {
                            acc.violation("DateTime<zone>:distance", format!("distance between instants {} and {} read in the changing zone", t, u), format!("{} s", t - u), format!("{:?}", dist));
                        }
                    }
                }
            }
        }
    }
}

/// the same instants through DateTime<FixedOffset> with different offsets
fn step_dt(acc: &mut Acc, inst: i128, d: i128, offs: &[i32]) {
    let s = mk_ndt_inst(inst);
    let td = mk_delta(d);
    let mut firsts: Option<DateTime<FixedOffset>> = None;
    for &o in offs {
        let fo = FixedOffset::east_opt(o).unwrap();
        let dt = fo.from_utc_datetime(&s);
        for neg in [false, true] {
            let target = if neg { inst - d } else { inst + d };
            let got = if neg { dt.checked_sub_signed(td) } else { dt.checked_add_signed(td) };
            acc.transitions += 1;
            match (got, inst_ok(target)) {
                (Some(r), true) => {
                    if r.naive_utc() != mk_ndt_inst(target) || r.offset().local_minus_utc() != o {
                        acc.violation("DateTime::checked_add_signed:value", format!("DateTime({}Z, offset {}).{}(TimeDelta({} ns))", show(inst), o, if neg { "checked_sub_signed" } else { "checked_add_signed" }, d), format!("{}Z offset {}", show(target), o), format!("{:?}", r));
                    } else {
                        acc.hit(EXACT);
                        acc.transitions += 2;
                        let dist = r.signed_duration_since(dt);
                        if delta_ns(dist) != target - inst || delta_ns(r - dt) != target - inst {
                            acc.violation("DateTime::signed_duration_since", format!("distance between DateTime({}Z) and DateTime({}Z), offset {}", show(target), show(inst), o), format!("{} ns", target - inst), format!("{} ns", delta_ns(dist)));
                        }
                        if let Some(f) = firsts {
                            // same instants whatever the offset
                            if !neg && (r.signed_duration_since(f) != TimeDelta::zero() && target != inst) && r != f.checked_add_signed(td).unwrap_or(r) {
                                acc.violation("DateTime:offset-dependence", format!("DateTime({}Z) + {} ns at offsets {} and first", show(inst), d, o), "same instant".into(), format!("{:?}", r));
                            }
                            acc.hit(OFFPAIR);
                        }
                    }
                }
                (None, false) => acc.hit_nt(REFUSED),
                (Some(r), false) => acc.violation("DateTime::checked_add_signed:wraps", format!("DateTime({}Z, offset {}) {} TimeDelta({} ns)", show(inst), o, if neg { "-" } else { "+" }, d), "None".into(), format!("Some({:?})", r)),
                (None, true) => acc.violation("DateTime::checked_add_signed:refuses-exact", format!("DateTime({}Z, offset {}) {} TimeDelta({} ns)", show(inst), o, if neg { "-" } else { "+" }, d), show(target), "None".into()),
            }
            let op = guard(|| if neg { dt - td } else { dt + td });
            acc.transitions += 1;
            match (op, got) {
                (Ok(v), Some(r)) if v == r && v.naive_utc() == r.naive_utc() => {}
                (Err(_), None) => acc.hit(OP_PANIC),
                (op, got) => acc.violation("DateTime:operator-vs-checked", format!("DateTime({}Z, offset {}) {} TimeDelta({} ns)", show(inst), o, if neg { "-" } else { "+" }, d), format!("{:?}", got), format!("{:?}", op)),
            }
        }
        // distances between the same two instants read at different offsets: by value, by reference, and through
        // signed_duration_since — all must be the exact instant distance
        if let Some(f) = firsts {
            let other = fo.from_utc_datetime(&mk_ndt_inst(if inst_ok(inst + d) { inst + d } else { inst }));
            let want = if inst_ok(inst + d) { d } else { 0 };
            acc.transitions += 4;
            let got = [delta_ns(other - f), delta_ns(other - &f), delta_ns(other.signed_duration_since(f)), -delta_ns(f - &other)];
            if got.iter().any(|g| *g != want) {
                acc.violation("DateTime:difference-across-offsets", format!("DateTime({}Z at offset {}) - DateTime({}Z at offset {}) [by value, by reference, signed_duration_since, reversed]", show(inst + want), o, show(inst), f.offset().local_minus_utc()), format!("{} ns each", want), format!("{:?}", got));
            }
        }
        if firsts.is_none() {
            firsts = Some(dt);
        }
    }
}

fn date_steps(acc: &mut Acc, z: i64, durs: &[i128], counts: &[u64]) {
    let date = mk_date(z);
    for &d in durs {
        let td = mk_delta(d);
        let whole = d / DAY_NS; // truncation toward zero
        for neg in [false, true] {
            let tz = if neg { z as i128 - whole } else { z as i128 + whole };
            let got = if neg { date.checked_sub_signed(td) } else { date.checked_add_signed(td) };
            let ok = tz >= MIN_DAY as i128 && tz <= MAX_DAY as i128;
            acc.transitions += 1;
            match (got, ok) {
                (Some(r), true) => {
                    if date_z(r) as i128 != tz || r != mk_date(tz as i64) {
                        acc.violation("NaiveDate::checked_add_signed:value", format!("NaiveDate({:?}).{}(TimeDelta({} ns))", date, if neg { "checked_sub_signed" } else { "checked_add_signed" }, d), format!("{:?}", mk_date(tz as i64)), format!("{:?}", r));
                    } else {
                        acc.hit(EXACT);
                        if d % DAY_NS != 0 {
                            acc.hit_nt(DAYTRUNC);
                        }
                        acc.transitions += 1;
                        let dist = r.signed_duration_since(date);
                        if delta_ns(dist) != (tz - z as i128) * DAY_NS || (r - date) != dist {
                            acc.violation("NaiveDate::signed_duration_since", format!("NaiveDate({:?}).signed_duration_since({:?})", r, date), format!("{} days", tz - z as i128), format!("{:?}", dist));
                        }
                    }
                }
                (None, false) => acc.hit_nt(REFUSED),
                (Some(r), false) => acc.violation("NaiveDate::checked_add_signed:wraps", format!("NaiveDate({:?}).{}(TimeDelta({} ns))", date, if neg { "checked_sub_signed" } else { "checked_add_signed" }, d), "None".into(), format!("Some({:?})", r)),
                (None, true) => acc.violation("NaiveDate::checked_add_signed:refuses-exact", format!("NaiveDate({:?}).{}(TimeDelta({} ns))", date, if neg { "checked_sub_signed" } else { "checked_add_signed" }, d), format!("{:?}", mk_date(tz as i64)), "None".into()),
            }
            let op = guard(|| if neg { date - td } else { date + td });
            acc.transitions += 1;
            match (op, got) {
                (Ok(v), Some(r)) if v == r => {}
                (Err(_), None) => acc.hit(OP_PANIC),
                (op, got) => acc.violation("NaiveDate:operator-vs-checked", format!("NaiveDate({:?}) {} TimeDelta({} ns)", date, if neg { "-" } else { "+" }, d), format!("{:?}", got), format!("{:?}", op)),
            }
        }
    }
    let ndt = date.and_time(mk_time(86399, 999_999_999));
    for &n in counts {
        for neg in [false, true] {
            let tz = if neg { z as i128 - n as i128 } else { z as i128 + n as i128 };
            let ok = tz >= MIN_DAY as i128 && tz <= MAX_DAY as i128;
            let got = if neg { date.checked_sub_days(Days::new(n)) } else { date.checked_add_days(Days::new(n)) };
            let got2 = if neg { ndt.checked_sub_days(Days::new(n)) } else { ndt.checked_add_days(Days::new(n)) };
            acc.transitions += 2;
            match (got, ok) {
                (Some(r), true) if r == mk_date(tz as i64) => acc.hit(EXACT),
                (None, false) => acc.hit_nt(DAYREF),
                (g, _) => acc.violation("NaiveDate::checked_add_days", format!("NaiveDate({:?}).{}(Days::new({}))", date, if neg { "checked_sub_days" } else { "checked_add_days" }, n), if ok { format!("Some({:?})", mk_date(tz as i64)) } else { "None".into() }, format!("{:?}", g)),
            }
            if got2.map(|x| (x.date(), x.time())) != got.map(|x| (x, ndt.time())) {
                acc.violation("NaiveDateTime::checked_add_days", format!("NaiveDateTime({:?}).{}(Days::new({}))", ndt, if neg { "checked_sub_days" } else { "checked_add_days" }, n), format!("{:?} with the time kept", got), format!("{:?}", got2));
            }
            let op = guard(|| if neg { date - Days::new(n) } else { date + Days::new(n) });
            acc.transitions += 1;
            match (op, got) {
                (Ok(v), Some(r)) if v == r => {}
                (Err(_), None) => acc.hit(OP_PANIC),
                (op, got) => acc.violation("NaiveDate:Days-operator-vs-checked", format!("NaiveDate({:?}) {} Days::new({})", date, if neg { "-" } else { "+" }, n), format!("{:?}", got), format!("{:?}", op)),
            }
        }
    }
}

fn iterators(acc: &mut Acc, z: i64, limit_fwd: usize, limit_back: usize) {
    let d0 = mk_date(z);
    // forward days
    let mut it = d0.iter_days();
    let total = (MAX_DAY - z) as usize;
    let mut k = 0usize;
    loop {
        let h = it.size_hint();
        acc.transitions += 1;
        if h != (total - k, Some(total - k)) || it.len() != total - k {
            acc.violation("iter_days:size_hint", format!("NaiveDate({:?}).iter_days() after {} items: size_hint()", d0, k), format!("({}, Some({}))", total - k, total - k), format!("{:?}", h));
            break;
        }
        if k >= limit_fwd && total - k > 3 {
            break;
        }
        match it.next() {
            Some(x) => {
                if date_z(x) != z + k as i64 {
                    acc.violation("iter_days:step", format!("NaiveDate({:?}).iter_days() item {}", d0, k), format!("{:?}", mk_date(z + k as i64)), format!("{:?}", x));
                    break;
                }
                k += 1;
            }
            None => {
                if k != total {
                    acc.violation("iter_days:length", format!("NaiveDate({:?}).iter_days() length", d0), format!("{}", total), format!("{}", k));
                }
                if it.next().is_some() || it.next().is_some() {
                    acc.violation("iter_days:fused", format!("NaiveDate({:?}).iter_days() after the end", d0), "None".into(), "Some".into());
                }
                acc.hit_nt(ITER_END);
                break;
            }
        }
    }
    // backward days
    let mut it = d0.iter_days().rev();
    let total = (z - MIN_DAY) as usize;
    let mut k = 0usize;
    loop {
        if k >= limit_back && total - k > 3 {
            break;
        }
        acc.transitions += 1;
        match it.next() {
            Some(x) => {
                if date_z(x) != z - k as i64 {
                    acc.violation("iter_days:rev-step", format!("NaiveDate({:?}).iter_days().rev() item {}", d0, k), format!("{:?}", mk_date(z - k as i64)), format!("{:?}", x));
                    break;
                }
                k += 1;
            }
            None => {
                if k != total {
                    acc.violation("iter_days:rev-length", format!("NaiveDate({:?}).iter_days().rev() length", d0), format!("{}", total), format!("{}", k));
                }
                if it.next().is_some() {
                    acc.violation("iter_days:rev-fused", format!("NaiveDate({:?}).iter_days().rev() after the end", d0), "None".into(), "Some".into());
                }
                acc.hit_nt(ITER_END);
                break;
            }
        }
    }
    // forward weeks
    let mut it = d0.iter_weeks();
    let total = ((MAX_DAY - z) / 7) as usize;
    let mut k = 0usize;
    loop {
        let h = it.size_hint();
        acc.transitions += 1;
        if h != (total - k, Some(total - k)) {
            acc.violation("iter_weeks:size_hint", format!("NaiveDate({:?}).iter_weeks() after {} items: size_hint()", d0, k), format!("({}, Some({}))", total - k, total - k), format!("{:?}", h));
            break;
        }
        if k >= limit_fwd && total - k > 3 {
            break;
        }
        match it.next() {
            Some(x) => {
                if date_z(x) != z + 7 * k as i64 {
                    acc.violation("iter_weeks:step", format!("NaiveDate({:?}).iter_weeks() item {}", d0, k), format!("{:?}", mk_date(z + 7 * k as i64)), format!("{:?}", x));
                    break;
                }
                k += 1;
            }
            None => {
                if k != total {
                    acc.violation("iter_weeks:length", format!("NaiveDate({:?}).iter_weeks() length", d0), format!("{}", total), format!("{}", k));
                }
                if it.next().is_some() || it.next().is_some() {
                    acc.violation("iter_weeks:fused", format!("NaiveDate({:?}).iter_weeks() after the end", d0), "None".into(), "Some".into());
                }
                acc.hit_nt(ITER_END);
                break;
            }
        }
    }
    let mut it = d0.iter_weeks().rev();
    let total = ((z - MIN_DAY) / 7) as usize;
    let mut k = 0usize;
    loop {
        if k >= limit_back && total - k > 3 {
            break;
        }
        acc.transitions += 1;
        match it.next() {
            Some(x) => {
                if date_z(x) != z - 7 * k as i64 {
                    acc.violation("iter_weeks:rev-step", format!("NaiveDate({:?}).iter_weeks().rev() item {}", d0, k), format!("{:?}", mk_date(z - 7 * k as i64)), format!("{:?}", x));
                    break;
                }
                k += 1;
            }
            None => {
                if k != total {
                    acc.violation("iter_weeks:rev-length", format!("NaiveDate({:?}).iter_weeks().rev() length", d0), format!("{}", total), format!("{}", k));
                }
                acc.hit_nt(ITER_END);
                break;
            }
        }
    }
}

fn all_dates_steps(acc: &mut Acc, z0: i64, z1: i64, steps: &[i64]) {
    let mut d = mk_date(z0);
    for z in z0..z1 {
        for &s in steps {
            let t = z + s;
            let got = if s >= 0 { d.checked_add_days(Days::new(s as u64)) } else { d.checked_sub_days(Days::new((-s) as u64)) };
            acc.transitions += 1;
            if day_in_range(t) {
                match got {
                    Some(r) if date_z(r) == t => {}
                    g => acc.violation("NaiveDate::checked_add_days:sweep", format!("NaiveDate({:?}) {} Days::new({})", d, if s >= 0 { "+" } else { "-" }, s.abs()), format!("{:?}", mk_date(t)), format!("{:?}", g)),
                }
            } else if got.is_some() {
                acc.violation("NaiveDate::checked_add_days:sweep-wraps", format!("NaiveDate({:?}) {} Days::new({})", d, if s >= 0 { "+" } else { "-" }, s.abs()), "None".into(), format!("{:?}", got));
            } else {
                acc.cls[REFUSED] += 1;
            }
        }
        acc.states += 1;
        if z + 1 < z1 {
            d = d.succ_opt().unwrap();
        }
    }
}

fn main() {
    install_panic_hook();
    let args = parse_args();
    let start = Instant::now();
    if let Err(e) = selftest() {
        machinery(&format!("RefCal self-test failed: {}", e));
    }
    let spec = Spec {
        property: "C03",
        classes: CLASSES,
        required: &["exact", "refused_out_of_range", "operator_panics", "day_truncation", "day_count_refused", "crosses_year", "crosses_400y", "iter_exhausted", "range_end_reached", "depth2", "offset_pair", "sibling_exact", "sibling_panics"],
        rule: "history exploration: seeds B_date x B_time (non-leap) as NaiveDateTime; actions +-d for every d of the duration alphabet through checked_add_signed / checked_sub_signed / operators (panic iff refused), to depth 2 with deduplication on the instant; after each action the distance back, b+(a-b)=a and the order are checked; the same steps through DateTime<FixedOffset> at several offsets and through the sibling forms (+= / -=, std::time::Duration operands, FixedOffset operands, Days on date-times, checked_add_offset); NaiveDate x durations (whole-day truncation) and x Days counts from the u64 lattice; all dates x fixed day steps (sweep); day/week iterators forward and backward from boundary dates (bounded prefix of 800 items, two runs of 70,000 items) and to exhaustion near both range ends with size_hint checked at every step; non-trivial = refusal, year/400-year crossing, truncation, iterator end, range end reached exactly",
        assumptions: &["durations between alphabet members rely on the i128 model being uniform between the carries the alphabet brackets (second, day, year, 400-year cycle, range span, i32 days)", "leap-second operands are excluded here (C07)"],
    };
    let tier = args.tier;
    let durs = b_durs();
    let dates = b_dates(tier);
    let times: Vec<(u32, u32)> = b_times(false);
    let times_small: Vec<(u32, u32)> = vec![(0, 0), (0, 1), (43200, 500_000_000), (86399, 0), (86399, 999_999_999), (3599, 999_999), (86340, 1_000_000)];
    let small = b_dates_small();
    let offs: Vec<i32> = vec![0, 3600, -86399, 86399, 19800];
    let mut counts: Vec<u64> = lat_u64();
    counts.extend([1, 7, 365, 366, 146097, 146096, i32::MAX as u64, i32::MAX as u64 + 1, (MAX_DAY - MIN_DAY) as u64, (MAX_DAY - MIN_DAY) as u64 + 1]);
    counts.sort();
    counts.dedup();
    let sweep_steps: Vec<i64> = if tier == Tier::Thorough { vec![1, -1, 7, -7, 365, -365, 366, -366, 146097, -146097, 36524, -36525] } else { vec![366, -365, 146097, -7] };
    const DAYS_PER_UNIT: i64 = 1 << 18;
    let ndays = MAX_DAY - MIN_DAY + 1;
    let nsweep = ((ndays + DAYS_PER_UNIT - 1) / DAYS_PER_UNIT) as u64;
    let nd = dates.len() as u64;
    let only = replay_unit(&args);
    let depth1: Mutex<BTreeSet<i128>> = Mutex::new(BTreeSet::new());
    // units: [0, nd) one boundary date each; [nd, nd+nsweep) sweeps; then depth-2 in a second phase
    let mut acc = explore_units(nd + nsweep, CLASSES.len(), only, |u, acc| {
        if u < nd {
            let z = dates[u as usize];
            let is_small = small.binary_search(&z).is_ok();
            let mut out = BTreeSet::new();
            let ts: &[(u32, u32)] = if is_small || tier == Tier::Thorough { &times } else { &times_small };
            for &(s, n) in ts {
                let inst = z as i128 * DAY_NS + s as i128 * NS + n as i128;
                acc.states += 1;
                for &d in &durs {
                    step_ndt(acc, inst, d, if is_small { Some(&mut out) } else { None });
                }
            }
            if is_small {
                for &(s, n) in &times_small {
                    let inst = z as i128 * DAY_NS + s as i128 * NS + n as i128;
                    for &d in &durs {
                        step_dt(acc, inst, d, &offs);
                        siblings(acc, inst, d, &offs);
                    }
                }
                depth1.lock().unwrap().extend(out);
            }
            if u == 0 {
                changing_zone(acc);
            }
            if u == 1 {
                iterator_histories(acc);
                // one run past 2^16 items in each direction (a step counter kept in a narrow integer)
                iterators(acc, days_from_civil(2023, 1, 1), 70_000, 70_000);
                iterators(acc, days_from_civil(-1, 12, 31), 70_000, 70_000);
            }
            date_steps(acc, z, &durs, &counts);
            iterators(acc, z, if MAX_DAY - z < 2000 { usize::MAX } else { 800 }, if z - MIN_DAY < 2000 { usize::MAX } else { 800 });
            acc.traces += 1;
            if u % 499 == 0 {
                acc.sample(|| format!("seed date {:?}: {} times x {} durations x (add, sub, operators, distance back); Days counts {}; iterators", mk_date(z), ts.len(), durs.len(), counts.len()));
            }
        } else {
            let z0 = MIN_DAY + (u - nd) as i64 * DAYS_PER_UNIT;
            all_dates_steps(acc, z0, (z0 + DAYS_PER_UNIT).min(MAX_DAY + 1), &sweep_steps);
            acc.traces += 1;
        }
    });
    let d1: Vec<i128> = depth1.into_inner().unwrap().into_iter().collect();
    let stride = if tier == Tier::Thorough { 1 } else { 4 };
    let d1s: Vec<i128> = d1.iter().cloned().step_by(stride).collect();
    if only.is_none() {
        let chunk = 256usize;
        let nu = (d1s.len() + chunk - 1) / chunk;
        let acc2 = explore_units(nu as u64, CLASSES.len(), None, |u, acc| {
            for &inst in &d1s[u as usize * chunk..((u as usize + 1) * chunk).min(d1s.len())] {
                acc.states += 1;
                for &d in &durs {
                    step_ndt(acc, inst, d, None);
                }
                acc.hit(DEPTH2);
            }
            acc.traces += 1;
        });
        acc.merge(acc2);
    }
    let _ = (NaiveDate::MIN, NaiveDateTime::MIN);
    let extra = Extra {
        bounds: json!({"boundary_dates": dates.len(), "times": times.len(), "durations": durs.len(), "day_counts": counts.len(), "offsets": offs, "depth": 2, "depth1_distinct_instants": d1.len(), "depth2_seeds_used": d1s.len(), "sweep_steps": sweep_steps, "sweep_dates": ndays}),
        exhaustive: false,
        more: vec![],
    };
    finish(&spec, &args, start, acc, extra);
}
