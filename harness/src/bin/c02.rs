//! C02 — Unix timestamps <-> UTC date-times. Shapes S (all days, all seconds of day) + P (unit lattices).
use chrono::{DateTime, FixedOffset, MappedLocalTime, NaiveDateTime, TimeZone, Utc};
use chrono_mc::core::*;
use chrono_mc::lattice::*;
use chrono_mc::refcal::*;
use serde_json::json;
use std::time::{Duration, Instant, SystemTime, UNIX_EPOCH};

const CLASSES: &[&str] = &["built", "refused_out_of_range", "refused_bad_nsec", "leap_second", "negative_floor", "nanos_absent", "nanos_present", "range_end", "systemtime"];
const BUILT: usize = 0;
const REF_OOR: usize = 1;
const REF_NSEC: usize = 2;
const LEAP: usize = 3;
const NEGFLOOR: usize = 4;
const NANOS_ABSENT: usize = 5;
const NANOS_PRESENT: usize = 6;
const RANGE_END: usize = 7;
const SYSTIME: usize = 8;

fn fits64(x: i128) -> bool {
    x >= i64::MIN as i128 && x <= i64::MAX as i128
}

/// compare a built value with the reference instant (secs since epoch, nanosecond field incl. leap)
fn check_value(acc: &mut Acc, key: &str, call: &dyn Fn() -> String, dt: DateTime<Utc>, secs: i128, nfield: u32) {
    let z = secs.div_euclid(86400) as i64;
    let sod = secs.rem_euclid(86400) as u32;
    let got = ndt_parts(dt.naive_utc());
    acc.transitions += 1;
    if got != (z, sod, nfield) {
        let (y, m, d) = civil_from_days(z);
        acc.violation(key, call(), format!("{}-{:02}-{:02} second-of-day {} nanosecond {}", y, m, d, sod, nfield), format!("{:?}", dt));
        return;
    }
    // reading back
    let ns_true = secs * NS + nfield as i128; // leap: beyond the second, as chrono's timestamp_nanos documents
    acc.transitions += 6;
    let sub = nfield;
    let rd = (dt.timestamp() as i128, dt.timestamp_subsec_nanos(), dt.timestamp_subsec_micros(), dt.timestamp_subsec_millis());
    if rd != (secs, sub, sub / 1000, sub / 1_000_000) {
        acc.violation(&format!("{}:readback", key), format!("timestamp()/timestamp_subsec_* of the value from {}", call()), format!("{:?}", (secs, sub, sub / 1000, sub / 1_000_000)), format!("{:?}", rd));
    }
    let ms = secs * 1000 + (sub / 1_000_000) as i128;
    let us = secs * 1_000_000 + (sub / 1000) as i128;
    if fits64(ms) && dt.timestamp_millis() as i128 != ms {
        acc.violation("timestamp_millis", format!("timestamp_millis() of the value from {}", call()), format!("{}", ms), format!("{}", dt.timestamp_millis()));
    }
    if fits64(us) && dt.timestamp_micros() as i128 != us {
        acc.violation("timestamp_micros", format!("timestamp_micros() of the value from {}", call()), format!("{}", us), format!("{}", dt.timestamp_micros()));
    }
    let want = if fits64(ns_true) { Some(ns_true as i64) } else { None };
    let gotn = dt.timestamp_nanos_opt();
    if gotn != want {
        acc.violation("timestamp_nanos_opt", format!("timestamp_nanos_opt() of the value from {}", call()), format!("{:?}", want), format!("{:?}", gotn));
    }
    if want.is_some() {
        acc.hit(NANOS_PRESENT);
    } else {
        acc.hit_nt(NANOS_ABSENT);
    }
    if nfield >= 1_000_000_000 {
        acc.hit_nt(LEAP);
    }
    acc.hit(BUILT);
}

fn secs_in_range(secs: i128) -> bool {
    secs >= MIN_DAY as i128 * 86400 && secs < (MAX_DAY as i128 + 1) * 86400
}

/// from_timestamp(secs, nsec) against the statement
fn from_ts(acc: &mut Acc, secs: i64, nsec: u32) {
    let got = DateTime::from_timestamp(secs, nsec);
    let nsec_ok = nsec < 1_000_000_000 || (nsec < 2_000_000_000 && secs.rem_euclid(60) == 59);
    let ok = secs_in_range(secs as i128) && nsec_ok;
    acc.transitions += 1;
    match (got, ok) {
        (Some(dt), true) => check_value(acc, "DateTime::from_timestamp", &|| format!("DateTime::from_timestamp({}, {})", secs, nsec), dt, secs as i128, nsec),
        (None, false) => {
            if !nsec_ok {
                acc.hit_nt(REF_NSEC)
            } else {
                acc.hit_nt(REF_OOR)
            }
        }
        (Some(dt), false) => acc.violation("DateTime::from_timestamp:accepts-invalid", format!("DateTime::from_timestamp({}, {})", secs, nsec), "None".into(), format!("Some({:?})", dt)),
        (None, true) => acc.violation("DateTime::from_timestamp:refuses-valid", format!("DateTime::from_timestamp({}, {})", secs, nsec), "Some".into(), "None".into()),
    }
    // Utc.timestamp_opt must agree
    let u = Utc.timestamp_opt(secs, nsec);
    acc.transitions += 1;
    let same = match (&u, got) {
        (MappedLocalTime::Single(a), Some(b)) => *a == b && a.naive_utc() == b.naive_utc(),
        (MappedLocalTime::None, None) => true,
        _ => false,
    };
    if !same {
        acc.violation("Utc.timestamp_opt", format!("Utc.timestamp_opt({}, {})", secs, nsec), format!("{:?}", got), format!("{:?}", u));
    }
    // sibling forms: another zone's generic wrapper (same instant, the zone's offset), the deprecated NaiveDateTime
    // constructors / readers and the deprecated panicking forms
    let fo = FixedOffset::east_opt(if secs % 2 == 0 { 19_800 } else { -34_200 }).unwrap();
    let f = fo.timestamp_opt(secs, nsec).single();
    acc.transitions += 3;
    if f.map(|x| (x.naive_utc(), x.offset().local_minus_utc())) != got.map(|x| (x.naive_utc(), fo.local_minus_utc())) {
        acc.violation("FixedOffset.timestamp_opt", format!("FixedOffset({}).timestamp_opt({}, {})", fo, secs, nsec), format!("{:?} at that offset", got), format!("{:?}", f));
    }
    #[allow(deprecated)]
    {
        let n = NaiveDateTime::from_timestamp_opt(secs, nsec);
        if n != got.map(|x| x.naive_utc()) {
            acc.violation("NaiveDateTime::from_timestamp_opt (deprecated form)", format!("NaiveDateTime::from_timestamp_opt({}, {})", secs, nsec), format!("{:?}", got.map(|x| x.naive_utc())), format!("{:?}", n));
        }
        if let (Some(n), Some(dt)) = (n, got) {
            let a = (n.timestamp(), n.timestamp_millis(), n.timestamp_micros(), n.timestamp_nanos_opt(), n.timestamp_subsec_millis(), n.timestamp_subsec_micros(), n.timestamp_subsec_nanos());
            let b = (dt.timestamp(), dt.timestamp_millis(), dt.timestamp_micros(), dt.timestamp_nanos_opt(), dt.timestamp_subsec_millis(), dt.timestamp_subsec_micros(), dt.timestamp_subsec_nanos());
            if a != b {
                acc.violation("NaiveDateTime::timestamp* (deprecated forms)", format!("timestamp readers of NaiveDateTime::from_timestamp_opt({}, {})", secs, nsec), format!("{:?}", b), format!("{:?}", a));
            }
        }
        if ok || secs.rem_euclid(97) == 0 {
            let p1 = guard(|| NaiveDateTime::from_timestamp(secs, nsec)).ok();
            let p2 = guard(|| Utc.timestamp(secs, nsec)).ok();
            acc.transitions += 2;
            if p1 != got.map(|x| x.naive_utc()) || p2 != got {
                acc.violation("from_timestamp / Utc.timestamp (deprecated panicking forms)", format!("NaiveDateTime::from_timestamp({0}, {1}) / Utc.timestamp({0}, {1})", secs, nsec), format!("{:?} (panic for None)", got), format!("{:?} / {:?}", p1, p2));
            }
        }
    }
}

fn from_unit(acc: &mut Acc, unit: u32, c: i64) {
    // unit: 3 = millis, 6 = micros, 9 = nanos
    let per = 10i128.pow(unit);
    let secs = (c as i128).div_euclid(per);
    let sub = (c as i128).rem_euclid(per) as u32 * 10u32.pow(9 - unit);
    let ok = secs_in_range(secs);
    let (name, got, viautc): (&str, Option<DateTime<Utc>>, Option<DateTime<Utc>>) = match unit {
        3 => ("from_timestamp_millis", DateTime::from_timestamp_millis(c), Utc.timestamp_millis_opt(c).single()),
        6 => ("from_timestamp_micros", DateTime::from_timestamp_micros(c), Utc.timestamp_micros(c).single()),
        _ => ("from_timestamp_nanos", Some(DateTime::from_timestamp_nanos(c)), Some(Utc.timestamp_nanos(c))),
    };
    acc.transitions += 4;
    if viautc != got {
        acc.violation(&format!("Utc.{}", name), format!("Utc counterpart of DateTime::{}({})", name, c), format!("{:?}", got), format!("{:?}", viautc));
    }
    {
        // the same wrappers on another zone, and the deprecated NaiveDateTime constructors
        let fo = FixedOffset::east_opt(if c % 2 == 0 { -12_600 } else { 49_500 }).unwrap();
        let viafo: Option<DateTime<FixedOffset>> = match unit {
            3 => fo.timestamp_millis_opt(c).single(),
            6 => fo.timestamp_micros(c).single(),
            _ => Some(fo.timestamp_nanos(c)),
        };
        if viafo.map(|x| (x.naive_utc(), x.offset().local_minus_utc())) != got.map(|x| (x.naive_utc(), fo.local_minus_utc())) {
            acc.violation(&format!("FixedOffset.{}", name), format!("FixedOffset({}) counterpart of DateTime::{}({})", fo, name, c), format!("{:?} at that offset", got), format!("{:?}", viafo));
        }
        #[allow(deprecated)]
        let n = match unit {
            3 => NaiveDateTime::from_timestamp_millis(c),
            6 => NaiveDateTime::from_timestamp_micros(c),
            _ => NaiveDateTime::from_timestamp_nanos(c),
        };
        if n != got.map(|x| x.naive_utc()) {
            acc.violation(&format!("NaiveDateTime::{} (deprecated form)", name), format!("NaiveDateTime::{}({})", name, c), format!("{:?}", got.map(|x| x.naive_utc())), format!("{:?}", n));
        }
        if unit == 3 && (ok || c % 89 == 0) {
            #[allow(deprecated)]
            let p = guard(|| Utc.timestamp_millis(c)).ok();
            acc.transitions += 1;
            if p != got {
                acc.violation("Utc.timestamp_millis (deprecated panicking form)", format!("Utc.timestamp_millis({})", c), format!("{:?} (panic for None)", got), format!("{:?}", p));
            }
        }
    }
    match (got, ok) {
        (Some(dt), true) => {
            check_value(acc, &format!("DateTime::{}", name), &|| format!("DateTime::{}({})", name, c), dt, secs, sub);
            // reading the same unit back returns the argument
            acc.transitions += 1;
            let back = match unit {
                3 => Some(dt.timestamp_millis()),
                6 => Some(dt.timestamp_micros()),
                _ => dt.timestamp_nanos_opt(),
            };
            if back != Some(c) {
                acc.violation(&format!("DateTime::{}:readback", name), format!("DateTime::{}({}) read back in the same unit", name, c), format!("Some({})", c), format!("{:?}", back));
            }
            if c < 0 && (c as i128).rem_euclid(per) != 0 {
                acc.hit_nt(NEGFLOOR);
            }
        }
        (None, false) => acc.hit_nt(REF_OOR),
        (Some(dt), false) => acc.violation(&format!("DateTime::{}:accepts-out-of-range", name), format!("DateTime::{}({})", name, c), "None".into(), format!("Some({:?})", dt)),
        (None, true) => acc.violation(&format!("DateTime::{}:refuses-valid", name), format!("DateTime::{}({})", name, c), "Some".into(), "None".into()),
    }
}

fn seconds_lattice() -> Vec<i128> {
    let lo = MIN_DAY as i128 * 86400;
    let hi = (MAX_DAY as i128 + 1) * 86400 - 1;
    let w = i64::MAX as i128 / NS;
    let mut v: Vec<i128> = vec![];
    for b in [0i128, 86399, 86400, -86399, -86400, lo, hi, w, -w, -w - 1, 59, 60, -1, -60, -61, 1_000_000_000, 2_147_483_647, 2_147_483_648, -2_147_483_648, 253_402_300_799, 253_402_300_800, -62_167_219_200, -62_167_219_201] {
        for d in -2i128..=2 {
            v.push(b + d);
        }
    }
    v.extend(lat_i64().into_iter().map(|x| x as i128));
    // alias classes of the derived day number (days = secs / 86400 + 719163 is narrowed to i32 somewhere below)
    for k in [1i128, -1, 2, -2, 3, 1 << 8, -(1 << 8)] {
        for d in [0i128, 1, -1, CE_OFFSET as i128, MIN_DAY as i128 + CE_OFFSET as i128, MAX_DAY as i128 + CE_OFFSET as i128, 730_000] {
            for sh in [31u32, 32, 33] {
                let days = k * (1i128 << sh) + d;
                v.push((days - CE_OFFSET as i128) * 86400);
                v.push((days - CE_OFFSET as i128) * 86400 + 86399);
            }
        }
    }
    v.retain(|x| fits64(*x));
    v.sort();
    v.dedup();
    v
}

fn units_lattice(acc: &mut Acc) {
    let secs = seconds_lattice();
    for unit in [3u32, 6, 9] {
        let per = 10i128.pow(unit);
        for &k in &secs {
            for r in [0i128, 1, -1, per - 1, -(per - 1), per / 2] {
                let c = k * per + r;
                if fits64(c) {
                    from_unit(acc, unit, c as i64);
                }
            }
            if fits64(k) {
                from_unit(acc, unit, k as i64); // the lattice value itself as a count
            }
        }
    }
    // seconds x nanosecond-field lattice
    let mut ns: Vec<u32> = lat_u32();
    ns.extend([999_999_999, 1_000_000_000, 1_000_000_001, 1_999_999_999, 2_000_000_000, 2_000_000_001]);
    ns.sort();
    ns.dedup();
    for &k in &secs {
        if !fits64(k) {
            continue;
        }
        for &n in &ns {
            from_ts(acc, k as i64, n);
        }
    }
    for base in [0i64, 1_700_000_000, -1_700_000_000, MIN_DAY * 86400, (MAX_DAY + 1) * 86400 - 60] {
        for s in 0..=61i64 {
            for &n in &[0u32, 999_999_999, 1_000_000_000, 1_500_000_000, 1_999_999_999, 2_000_000_000] {
                from_ts(acc, base + s, n);
            }
        }
    }
    acc.states += (secs.len() * 4) as u64;
}

fn systemtime(acc: &mut Acc) {
    // UNIX_EPOCH +- Duration over the lattice restricted to instants both types can hold
    let mut secs: Vec<u64> = vec![0, 1, 59, 60, 86399, 86400, 1_000_000_000, 2_147_483_647, 2_147_483_648, 4_294_967_295, 4_294_967_296, 253_402_300_799, 253_402_300_800, 8_210_266_876_799, 8_210_266_876_798, 8_334_601_228_800, 8_334_601_228_799];
    for k in 0..43u32 {
        secs.push(1u64 << k);
        secs.push((1u64 << k) - 1);
    }
    secs.sort();
    secs.dedup();
    for &s in &secs {
        for n in [0u32, 1, 999_999, 500_000_000, 999_999_999] {
            for neg in [false, true] {
                let d = Duration::new(s, n);
                let st = if neg { UNIX_EPOCH.checked_sub(d) } else { UNIX_EPOCH.checked_add(d) };
                let Some(st) = st else { continue };
                let tot: i128 = (s as i128 * NS + n as i128) * if neg { -1 } else { 1 };
                if !secs_in_range(tot.div_euclid(NS)) {
                    continue; // From<SystemTime> is documented to panic out of range (not a fallible operation)
                }
                let dt: DateTime<Utc> = DateTime::from(st);
                check_value(acc, "DateTime::from(SystemTime)", &|| format!("DateTime::<Utc>::from(UNIX_EPOCH {} {:?})", if neg { "-" } else { "+" }, d), dt, tot.div_euclid(NS), tot.rem_euclid(NS) as u32);
                let back: SystemTime = dt.into();
                acc.transitions += 1;
                if back != st {
                    acc.violation("SystemTime::from(DateTime)", format!("SystemTime::from(DateTime::from(UNIX_EPOCH {} {:?}))", if neg { "-" } else { "+" }, d), format!("{:?}", st), format!("{:?}", back));
                }
                acc.hit(SYSTIME);
            }
        }
    }
}

/// Histories of length two, each on a thread of its own (so that "the first conversion this thread ever made" varies):
/// every ordered pair of system-clock readings on both sides of the epoch and of midnight.
fn systemtime_histories(acc: &mut Acc) {
    let al: Vec<i128> = vec![-10 * NS, 10 * NS, -86_400 * NS - 5 * NS, 86_400 * NS + 5 * NS, 0, -1, 1, -86_400 * NS, 86_400 * NS, -43_200 * NS - 500_000_000, 1_700_000_000 * NS + 123, -1_700_000_000 * NS - 123];
    let conv = |t: i128| -> Option<(i64, u32)> {
        let st = if t >= 0 { UNIX_EPOCH.checked_add(Duration::new((t / NS) as u64, (t % NS) as u32))? } else { UNIX_EPOCH.checked_sub(Duration::new(((-t) / NS) as u64, ((-t) % NS) as u32))? };
        let dt: DateTime<Utc> = DateTime::from(st);
        let back: SystemTime = dt.into();
        if back != st {
            return None;
        }
        Some((dt.timestamp(), dt.timestamp_subsec_nanos()))
    };
    for &a in &al {
        for &b in &al {
            acc.transitions += 2;
            let got = std::thread::spawn(move || (conv(a), conv(b), conv(a))).join();
            let w = |t: i128| Some((t.div_euclid(NS) as i64, t.rem_euclid(NS) as u32));
            match got {
                Ok(g) if g == (w(a), w(b), w(a)) => acc.hit(SYSTIME),
                other => acc.violation("DateTime::from(SystemTime):history", format!("on a fresh thread: UNIX_EPOCH {:+} ns, then {:+} ns, then the first again, each converted to DateTime<Utc> and back", a, b), format!("{:?}", (w(a), w(b), w(a))), format!("{:?}", other.ok())),
            }
        }
    }
}

/// DateTime -> SystemTime for values built from (seconds, nanosecond field incl. leap): the instant is
/// UNIX_EPOCH + seconds + field (a leap field lies beyond its second), and the way back gives the same instant
fn to_systemtime(acc: &mut Acc) {
    let mut secs: Vec<i64> = vec![0, 1, -1, -2, 59, -59, -60, -61, 86_399, -86_400, 1_700_000_000, -1_700_000_000, 2_147_483_647, -2_147_483_648, 4_294_967_296, -4_294_967_296, 253_402_300_799, -62_167_219_200];
    for k in 0..40u32 {
        secs.push(1i64 << k);
        secs.push(-(1i64 << k));
        secs.push(-(1i64 << k) - 1);
    }
    secs.sort();
    secs.dedup();
    for &s in &secs {
        for n in [0u32, 1, 500_000_000, 999_999_999, 1_000_000_000, 1_500_000_000, 1_999_999_999] {
            let Some(dt) = DateTime::from_timestamp(s, n) else { continue };
            let total: i128 = s as i128 * NS + n as i128;
            let want = if total >= 0 { UNIX_EPOCH.checked_add(Duration::new((total / NS) as u64, (total % NS) as u32)) } else { UNIX_EPOCH.checked_sub(Duration::new(((-total) / NS) as u64, ((-total) % NS) as u32)) };
            let Some(want) = want else { continue };
            acc.transitions += 2;
            let got = guard(|| SystemTime::from(dt));
            if got != Ok(want) {
                acc.violation("SystemTime::from(DateTime):value", format!("SystemTime::from(DateTime::from_timestamp({}, {}))", s, n), format!("{:?}", want), format!("{:?}", got));
                continue;
            }
            let back = guard(|| DateTime::<Utc>::from(want));
            let norm = DateTime::from_timestamp(total.div_euclid(NS) as i64, total.rem_euclid(NS) as u32);
            if back.as_ref().ok().copied() != norm {
                acc.violation("DateTime::from(SystemTime):after-leap", format!("DateTime::<Utc>::from(SystemTime::from(DateTime::from_timestamp({}, {})))", s, n), format!("{:?}", norm), format!("{:?}", back));
            }
            acc.hit(SYSTIME);
            if n >= 1_000_000_000 {
                acc.hit_nt(LEAP);
            }
        }
    }
}

fn main() {
    install_panic_hook();
    let args = parse_args();
    let start = Instant::now();
    if let Err(e) = selftest() {
        machinery(&format!("RefCal self-test failed: {}", e));
    }
    let spec = Spec {
        property: "C02",
        classes: CLASSES,
        required: &["built", "refused_out_of_range", "refused_bad_nsec", "leap_second", "negative_floor", "nanos_absent", "nanos_present", "range_end", "systemtime"],
        rule: "(i) every representable day x second-of-day set x nanosecond set through from_timestamp, fields compared with civil_from_days, all timestamp accessors read back; (ii) every second of the day on a boundary date set (leap representation on seconds = 59 mod 60); (iii) counts k*unit+r for k in a seconds lattice (range ends, i64-ns window ends, i64 lattice) and r in {0,+-1,+-(unit-1),unit/2} for ms/us/ns; (iv) nanosecond-field lattice on seconds = 58,59,0 mod 60; (v) Utc.timestamp_* must equal the DateTime constructors; (vi) SystemTime both ways; non-trivial = refusal, leap second, negative sub-second floor, nanosecond accessor absent, range end",
        assumptions: &["i64 counts between lattice points rely on div_euclid/rem_euclid being uniform between carries (both neighbours of every carry are lattice members)", "Datelike/Timelike accessors used to read the result are the ones checked in C01/C07"],
    };
    let tier = args.tier;
    let sods: Vec<u32> = if tier == Tier::Thorough { vec![0, 1, 43199, 43200, 86398, 86399] } else { vec![0, 86399] };
    let nss: Vec<u32> = if tier == Tier::Thorough { vec![0, 1, 999_999_999] } else { vec![0, 999_999_999] };
    const DAYS_PER_UNIT: i64 = 1 << 18;
    let ndays = MAX_DAY - MIN_DAY + 1;
    let nsweep = ((ndays + DAYS_PER_UNIT - 1) / DAYS_PER_UNIT) as u64;
    let small = b_dates_small();
    let nsec_units = small.len() as u64;
    let only = replay_unit(&args);
    let acc = explore_units(nsweep + nsec_units + 2, CLASSES.len(), only, |u, acc| {
        if u < nsweep {
            let z0 = MIN_DAY + u as i64 * DAYS_PER_UNIT;
            let z1 = (z0 + DAYS_PER_UNIT).min(MAX_DAY + 1);
            for z in z0..z1 {
                acc.states += 1;
                for &s in &sods {
                    for &n in &nss {
                        from_ts(acc, z * 86400 + s as i64, n);
                    }
                }
                if z == MIN_DAY || z == MAX_DAY {
                    acc.hit_nt(RANGE_END);
                    // one second beyond either end
                    from_ts(acc, MIN_DAY * 86400 - 1, 999_999_999);
                    from_ts(acc, (MAX_DAY + 1) * 86400, 0);
                }
            }
            acc.traces += 1;
            if u % 97 == 0 {
                acc.sample(|| format!("days {}..{} x seconds-of-day {:?} x nanoseconds {:?}: from_timestamp -> fields, all timestamp*() back", z0, z1, sods, nss));
            }
        } else if u < nsweep + nsec_units {
            let z = small[(u - nsweep) as usize];
            for s in 0..86400i64 {
                from_ts(acc, z * 86400 + s, 0);
                from_ts(acc, z * 86400 + s, 999_999_999);
                from_ts(acc, z * 86400 + s, 1_000_000_000);
                if s % 60 == 59 {
                    from_ts(acc, z * 86400 + s, 1_999_999_999);
                }
            }
            acc.states += 86400;
            acc.traces += 1;
        } else if u == nsweep + nsec_units {
            units_lattice(acc);
            acc.traces += 1;
            acc.sample(|| "unit lattice: e.g. DateTime::from_timestamp_millis(-1) -> 1969-12-31T23:59:59.999Z, read back -1".to_string());
        } else {
            systemtime(acc);
            to_systemtime(acc);
            systemtime_histories(acc);
            acc.traces += 1;
        }
    });
    let extra = Extra {
        bounds: json!({"days": ndays, "seconds_of_day_per_day": sods, "nanoseconds_per_second": nss, "full_day_sweeps_on_dates": small.len(), "seconds_lattice": seconds_lattice().len()}),
        exhaustive: false,
        more: vec![("exhaustive_over".into(), json!("all representable days (with the listed seconds of day); all 86,400 seconds of the listed dates"))],
    };
    finish(&spec, &args, start, acc, extra);
}
