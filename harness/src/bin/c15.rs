//! C15 — fallible operations fail by value, not by panic or hang. Shapes P (entry points x extreme lattices) + F (short strings, format strings, 1-edit mutants).
use chrono::format::{Item, Parsed, StrftimeItems};
use chrono::{DateTime, Datelike, Days, DurationRound, FixedOffset, Local, Month, Months, NaiveDate, NaiveDateTime, NaiveTime, SecondsFormat, TimeDelta, TimeZone, Timelike, Utc, Weekday};
use chrono_mc::core::*;
use chrono_mc::lattice::*;
use chrono_mc::refcal::*;
use serde_json::json;
use std::fmt::Write as _;
use std::sync::atomic::{AtomicU64, Ordering};
use std::sync::Mutex;
use std::time::Instant;

const CLASSES: &[&str] = &["returned_none_or_err", "returned_value_valid", "range_end_receiver", "headroom_receiver", "format_items_bounded", "format_error_item", "string_rejected", "string_accepted", "documented_panic_site_skipped"];
const NONE_ERR: usize = 0;
const VALID: usize = 1;
const RANGE_END: usize = 2;
const HEADROOM: usize = 3;
const ITEMS_OK: usize = 4;
const ITEM_ERR: usize = 5;
const STR_REJ: usize = 6;
const STR_ACC: usize = 7;

// ---- watchdog: a call that never returns is a violation, not a hung check ---------------------------
static HEART: [AtomicU64; 64] = [const { AtomicU64::new(0) }; 64];
static CURRENT: [Mutex<String>; 64] = [const { Mutex::new(String::new()) }; 64];
fn slot() -> usize {
    rayon::current_thread_index().map(|i| i + 1).unwrap_or(0) % 64
}
fn beat() {
    HEART[slot()].fetch_add(1, Ordering::Relaxed);
}
fn note(s: &dyn Fn() -> String) {
    // only the string / format sweeps (where a hang is conceivable) pay for this
    let i = slot();
    if let Ok(mut c) = CURRENT[i].lock() {
        *c = s();
    }
    HEART[i].fetch_add(1, Ordering::Relaxed);
}
fn start_watchdog() {
    std::thread::spawn(|| {
        let mut last = [0u64; 64];
        let mut stuck = [0u32; 64];
        loop {
            std::thread::sleep(std::time::Duration::from_secs(5));
            for i in 0..64 {
                let v = HEART[i].load(Ordering::Relaxed);
                if v != 0 && v == last[i] && v % 2 == 1 {
                    stuck[i] += 1;
                } else {
                    stuck[i] = 0;
                }
                last[i] = v;
                if stuck[i] >= 12 {
                    let what = CURRENT[i].lock().map(|c| c.clone()).unwrap_or_default();
                    let dir = verif_dir().join("replays");
                    let _ = std::fs::create_dir_all(&dir);
                    let path = dir.join("C15-hang.json");
                    let _ = std::fs::write(&path, serde_json::to_string_pretty(&json!({"property": "C15", "key": "hang", "call": what, "expected": "returns", "actual": "no progress for 60 s", "unit": 0})).unwrap());
                    println!("VIOLATION property=C15 replay={}", path.display());
                    println!("  key=hang call: {}\n  expected: returns\n  actual:   no progress for 60 s", what);
                    std::process::exit(1);
                }
            }
        }
    });
}
/// mark "inside a possibly non-terminating call" (odd) / "outside" (even)
fn enter() {
    let i = slot();
    let v = HEART[i].load(Ordering::Relaxed);
    HEART[i].store(v | 1, Ordering::Relaxed);
}
fn leave() {
    let i = slot();
    let v = HEART[i].load(Ordering::Relaxed);
    HEART[i].store((v | 1) + 1, Ordering::Relaxed);
}

// ---- validity of returned values --------------------------------------------------------------------
fn ok_date(d: NaiveDate) -> bool {
    d >= NaiveDate::MIN && d <= NaiveDate::MAX && (MIN_YEAR..=MAX_YEAR).contains(&(d.year() as i64)) && (1..=366).contains(&d.ordinal()) && (1..=12).contains(&d.month()) && d.day() >= 1 && d.day() <= days_in_month(d.year() as i64, d.month())
}
fn ok_time(t: NaiveTime) -> bool {
    t.num_seconds_from_midnight() < 86400 && t.nanosecond() < 2_000_000_000
}
fn ok_ndt(t: NaiveDateTime) -> bool {
    ok_date(t.date()) && ok_time(t.time())
}
fn ok_dt<Tz: TimeZone>(t: &DateTime<Tz>) -> bool {
    ok_ndt(t.naive_utc())
}

trait Checkable {
    fn valid(&self) -> Option<bool>; // None = no value (None / Err)
}
impl Checkable for Option<NaiveDate> {
    fn valid(&self) -> Option<bool> {
        self.map(ok_date)
    }
}
impl Checkable for Option<NaiveTime> {
    fn valid(&self) -> Option<bool> {
        self.map(ok_time)
    }
}
impl Checkable for Option<NaiveDateTime> {
    fn valid(&self) -> Option<bool> {
        self.map(ok_ndt)
    }
}
impl<Tz: TimeZone> Checkable for Option<DateTime<Tz>> {
    fn valid(&self) -> Option<bool> {
        self.as_ref().map(ok_dt)
    }
}
impl Checkable for Option<TimeDelta> {
    fn valid(&self) -> Option<bool> {
        self.map(|d| d >= TimeDelta::MIN && d <= TimeDelta::MAX)
    }
}
impl Checkable for Option<()> {
    fn valid(&self) -> Option<bool> {
        self.map(|_| true)
    }
}

macro_rules! call {
    ($acc:expr, $key:expr, $desc:expr, $e:expr) => {{
        $acc.transitions += 1;
        match guard(|| $e) {
            Ok(r) => match Checkable::valid(&r) {
                None => $acc.hit(NONE_ERR),
                Some(true) => $acc.hit(VALID),
                Some(false) => $acc.violation(concat!($key, ":invalid-value"), $desc, "None / Err, or a value inside the supported range".into(), format!("{:?}", r)),
            },
            Err(p) => $acc.violation(concat!($key, ":panic"), $desc, "returns normally (Some/None, Ok/Err)".into(), format!("panic: {}", p)),
        }
    }};
}

fn wd(i: u32) -> Weekday {
    [Weekday::Mon, Weekday::Tue, Weekday::Wed, Weekday::Thu, Weekday::Fri, Weekday::Sat, Weekday::Sun][(i % 7) as usize]
}

fn small_u32() -> Vec<u32> {
    vec![0, 1, 2, 12, 13, 23, 24, 28, 29, 30, 31, 32, 59, 60, 61, 255, 256, 365, 366, 367, 999, 1000, 4294, 4295, 65535, 65536, 999_999, 1_000_000, 4_294_967, 4_294_968, 999_999_999, 1_000_000_000, 1_999_999_999, 2_000_000_000, (1 << 31) - 1, 1 << 31, u32::MAX - 1, u32::MAX]
}

fn deltas() -> Vec<TimeDelta> {
    let mut v: Vec<TimeDelta> = b_durs().into_iter().map(mk_delta).collect();
    v.extend([TimeDelta::MIN, TimeDelta::MAX, TimeDelta::zero()]);
    v
}

fn constructors(acc: &mut Acc, part: u64) {
    let i32s = lat_i32();
    let mut u32s = lat_u32();
    // decimal field limits (seconds, nanoseconds incl. the leap range, ordinals) next to the binary lattice
    u32s.extend([23, 24, 59, 60, 61, 365, 366, 367, 999_999_999, 1_000_000_000, 1_000_000_001, 1_999_999_999, 2_000_000_000, 2_000_000_001, 86_399, 86_400]);
    u32s.sort();
    u32s.dedup();
    let su = small_u32();
    match part {
        0 => {
            for &y in &i32s {
                for &m in &su {
                    for &d in &su {
                        call!(acc, "NaiveDate::from_ymd_opt", format!("NaiveDate::from_ymd_opt({}, {}, {})", y, m, d), NaiveDate::from_ymd_opt(y, m, d));
                    }
                }
                for &o in &u32s {
                    call!(acc, "NaiveDate::from_yo_opt", format!("NaiveDate::from_yo_opt({}, {})", y, o), NaiveDate::from_yo_opt(y, o));
                    for k in [0u32, 3, 6] {
                        call!(acc, "NaiveDate::from_isoywd_opt", format!("NaiveDate::from_isoywd_opt({}, {}, {:?})", y, o, wd(k)), NaiveDate::from_isoywd_opt(y, o, wd(k)));
                    }
                }
                call!(acc, "NaiveDate::from_num_days_from_ce_opt", format!("NaiveDate::from_num_days_from_ce_opt({})", y), NaiveDate::from_num_days_from_ce_opt(y));
                for &m in &su {
                    for n in [0u8, 1, 4, 5, 6, 37, 38, 128, 255] {
                        call!(acc, "NaiveDate::from_weekday_of_month_opt", format!("NaiveDate::from_weekday_of_month_opt({}, {}, {:?}, {})", y, m, wd(m), n), NaiveDate::from_weekday_of_month_opt(y, m, wd(m), n));
                    }
                }
                for mi in 1..=12u8 {
                    acc.transitions += 1;
                    if let Err(p) = guard(|| Month::try_from(mi).unwrap().num_days(y)) {
                        acc.violation("Month::num_days:panic", format!("Month::try_from({}).num_days({})", mi, y), "Some / None".into(), p);
                    }
                }
            }
        }
        1 => {
            for &h in &su {
                for &m in &su {
                    for &s in &su {
                        call!(acc, "NaiveTime::from_hms_opt", format!("NaiveTime::from_hms_opt({}, {}, {})", h, m, s), NaiveTime::from_hms_opt(h, m, s));
                        for &x in &[0u32, 999, 1000, 1999, 2000, 4294, 4295, 4_294_967, 4_294_968, 999_999_999, 1_999_999_999, 2_000_000_000, 1 << 31, u32::MAX] {
                            call!(acc, "NaiveTime::from_hms_milli_opt", format!("NaiveTime::from_hms_milli_opt({}, {}, {}, {})", h, m, s, x), NaiveTime::from_hms_milli_opt(h, m, s, x));
                            call!(acc, "NaiveTime::from_hms_micro_opt", format!("NaiveTime::from_hms_micro_opt({}, {}, {}, {})", h, m, s, x), NaiveTime::from_hms_micro_opt(h, m, s, x));
                            call!(acc, "NaiveTime::from_hms_nano_opt", format!("NaiveTime::from_hms_nano_opt({}, {}, {}, {})", h, m, s, x), NaiveTime::from_hms_nano_opt(h, m, s, x));
                        }
                    }
                }
            }
            for &s in &u32s {
                for &n in &u32s {
                    call!(acc, "NaiveTime::from_num_seconds_from_midnight_opt", format!("NaiveTime::from_num_seconds_from_midnight_opt({}, {})", s, n), NaiveTime::from_num_seconds_from_midnight_opt(s, n));
                }
            }
        }
        2 => {
            let i64s = lat_i64();
            for &s in &i64s {
                for &n in &u32s {
                    call!(acc, "DateTime::from_timestamp", format!("DateTime::from_timestamp({}, {})", s, n), DateTime::from_timestamp(s, n));
                    call!(acc, "TimeDelta::new", format!("TimeDelta::new({}, {})", s, n), TimeDelta::new(s, n));
                }
                call!(acc, "DateTime::from_timestamp_millis", format!("DateTime::from_timestamp_millis({})", s), DateTime::from_timestamp_millis(s));
                call!(acc, "DateTime::from_timestamp_micros", format!("DateTime::from_timestamp_micros({})", s), DateTime::from_timestamp_micros(s));
                call!(acc, "DateTime::from_timestamp_nanos", format!("DateTime::from_timestamp_nanos({})", s), Some(DateTime::from_timestamp_nanos(s)));
                call!(acc, "Utc.timestamp_opt", format!("Utc.timestamp_opt({}, 0)", s), Utc.timestamp_opt(s, 0).single());
                call!(acc, "Utc.timestamp_millis_opt", format!("Utc.timestamp_millis_opt({})", s), Utc.timestamp_millis_opt(s).single());
                call!(acc, "Utc.timestamp_micros", format!("Utc.timestamp_micros({})", s), Utc.timestamp_micros(s).single());
                call!(acc, "FixedOffset.timestamp_opt", format!("FixedOffset(86399).timestamp_opt({}, 0)", s), FixedOffset::east_opt(86399).unwrap().timestamp_opt(s, 0).single());
                call!(acc, "Local.timestamp_opt", format!("Local.timestamp_opt({}, 0)", s), Local.timestamp_opt(s, 0).single());
                for f in [TimeDelta::try_weeks as fn(i64) -> Option<TimeDelta>, TimeDelta::try_days, TimeDelta::try_hours, TimeDelta::try_minutes, TimeDelta::try_seconds, TimeDelta::try_milliseconds] {
                    call!(acc, "TimeDelta::try_*", format!("TimeDelta::try_<unit>({})", s), f(s));
                }
            }
            for &o in &i32s {
                acc.transitions += 2;
                match (guard(|| FixedOffset::east_opt(o)), guard(|| FixedOffset::west_opt(o))) {
                    (Ok(a), Ok(b)) => {
                        for x in [a, b].into_iter().flatten() {
                            if x.local_minus_utc().abs() >= 86400 {
                                acc.violation("FixedOffset::east_opt:invalid-value", format!("FixedOffset::east_opt/west_opt({})", o), "None or an offset within (-24h, 24h)".into(), format!("{:?}", x));
                            }
                        }
                    }
                    other => acc.violation("FixedOffset::east_opt:panic", format!("FixedOffset::east_opt/west_opt({})", o), "Some / None".into(), format!("{:?}", other)),
                }
            }
            // with_ymd_and_hms
            for &y in &i32s {
                for &m in &[0u32, 1, 2, 12, 13, u32::MAX] {
                    for &d in &[0u32, 1, 28, 29, 31, 32, u32::MAX] {
                        for &(h, mi, s) in &[(0u32, 0u32, 0u32), (23, 59, 59), (23, 59, 60), (24, 0, 0), (0, 60, 0), (u32::MAX, u32::MAX, u32::MAX)] {
                            call!(acc, "TimeZone::with_ymd_and_hms", format!("Utc.with_ymd_and_hms({}, {}, {}, {}, {}, {})", y, m, d, h, mi, s), Utc.with_ymd_and_hms(y, m, d, h, mi, s).single());
                            call!(acc, "TimeZone::with_ymd_and_hms", format!("FixedOffset(-86399).with_ymd_and_hms({}, {}, {}, {}, {}, {})", y, m, d, h, mi, s), FixedOffset::east_opt(-86399).unwrap().with_ymd_and_hms(y, m, d, h, mi, s).single());
                        }
                    }
                }
            }
        }
        _ => {
            // TimeDelta arithmetic and conversions at the extremes
            let ds = deltas();
            for &a in &ds {
                for &b in &ds {
                    call!(acc, "TimeDelta::checked_add", format!("{:?}.checked_add({:?})", a, b), a.checked_add(&b));
                    call!(acc, "TimeDelta::checked_sub", format!("{:?}.checked_sub({:?})", a, b), a.checked_sub(&b));
                }
                for &k in &i32s {
                    call!(acc, "TimeDelta::checked_mul", format!("{:?}.checked_mul({})", a, k), a.checked_mul(k));
                    call!(acc, "TimeDelta::checked_div", format!("{:?}.checked_div({})", a, k), a.checked_div(k));
                }
                acc.transitions += 3;
                if let Err(p) = guard(|| (a.num_microseconds(), a.num_nanoseconds(), a.to_std().ok(), a.to_string(), a.abs())) {
                    acc.violation("TimeDelta:accessors:panic", format!("accessors / to_std / Display / abs of {:?}", a), "returns".into(), p);
                }
            }
            for &s in &lat_u64() {
                for n in [0u32, 999_999_999] {
                    call!(acc, "TimeDelta::from_std", format!("TimeDelta::from_std(Duration::new({}, {}))", s, n), TimeDelta::from_std(std::time::Duration::new(s, n)).ok());
                }
            }
        }
    }
}

fn receivers_naive(acc: &mut Acc) {
    let su = small_u32();
    let mut u32s = lat_u32();
    // decimal field limits (seconds, nanoseconds incl. the leap range, ordinals) next to the binary lattice
    u32s.extend([23, 24, 59, 60, 61, 365, 366, 367, 999_999_999, 1_000_000_000, 1_000_000_001, 1_999_999_999, 2_000_000_000, 2_000_000_001, 86_399, 86_400]);
    u32s.sort();
    u32s.dedup();
    let i32s = lat_i32();
    let u64s = lat_u64();
    let ds = deltas();
    let dates: Vec<NaiveDate> = [MIN_DAY, MIN_DAY + 1, MIN_DAY + 365, MAX_DAY, MAX_DAY - 1, MAX_DAY - 365, 0, days_from_civil(2000, 2, 29), days_from_civil(-1, 12, 31), days_from_civil(2023, 1, 31)].iter().map(|z| mk_date(*z)).collect();
    for &d in &dates {
        if d == NaiveDate::MIN || d == NaiveDate::MAX {
            acc.hit_nt(RANGE_END);
        }
        for &n in &u32s {
            call!(acc, "NaiveDate::checked_add_months", format!("{:?}.checked_add_months(Months::new({}))", d, n), d.checked_add_months(Months::new(n)));
            call!(acc, "NaiveDate::checked_sub_months", format!("{:?}.checked_sub_months(Months::new({}))", d, n), d.checked_sub_months(Months::new(n)));
            call!(acc, "NaiveDate::with_month", format!("{:?}.with_month({})", d, n), d.with_month(n));
            call!(acc, "NaiveDate::with_month0", format!("{:?}.with_month0({})", d, n), d.with_month0(n));
            call!(acc, "NaiveDate::with_day", format!("{:?}.with_day({})", d, n), d.with_day(n));
            call!(acc, "NaiveDate::with_day0", format!("{:?}.with_day0({})", d, n), d.with_day0(n));
            call!(acc, "NaiveDate::with_ordinal", format!("{:?}.with_ordinal({})", d, n), d.with_ordinal(n));
            call!(acc, "NaiveDate::with_ordinal0", format!("{:?}.with_ordinal0({})", d, n), d.with_ordinal0(n));
        }
        for &n in &u64s {
            call!(acc, "NaiveDate::checked_add_days", format!("{:?}.checked_add_days(Days::new({}))", d, n), d.checked_add_days(Days::new(n)));
            call!(acc, "NaiveDate::checked_sub_days", format!("{:?}.checked_sub_days(Days::new({}))", d, n), d.checked_sub_days(Days::new(n)));
        }
        for &y in &i32s {
            call!(acc, "NaiveDate::with_year", format!("{:?}.with_year({})", d, y), d.with_year(y));
        }
        for &x in &ds {
            call!(acc, "NaiveDate::checked_add_signed", format!("{:?}.checked_add_signed({:?})", d, x), d.checked_add_signed(x));
            call!(acc, "NaiveDate::checked_sub_signed", format!("{:?}.checked_sub_signed({:?})", d, x), d.checked_sub_signed(x));
        }
        call!(acc, "NaiveDate::succ_opt", format!("{:?}.succ_opt()", d), d.succ_opt());
        call!(acc, "NaiveDate::pred_opt", format!("{:?}.pred_opt()", d), d.pred_opt());
        for &e in &dates {
            call!(acc, "NaiveDate::years_since", format!("{:?}.years_since({:?})", d, e), d.years_since(e).map(|_| ()));
        }
        for k in 0..7 {
            call!(acc, "NaiveWeek::checked_first_day", format!("{:?}.week({:?}).checked_first_day()", d, wd(k)), d.week(wd(k)).checked_first_day());
            call!(acc, "NaiveWeek::checked_last_day", format!("{:?}.week({:?}).checked_last_day()", d, wd(k)), d.week(wd(k)).checked_last_day());
            call!(acc, "NaiveWeek::checked_days", format!("{:?}.week({:?}).checked_days()", d, wd(k)), d.week(wd(k)).checked_days().map(|_| ()));
        }
        acc.transitions += 4;
        if let Err(p) = guard(|| (d.iter_days().next(), d.iter_days().next_back(), d.iter_weeks().next(), d.iter_weeks().next_back(), d.iter_days().size_hint(), d.iter_weeks().size_hint())) {
            acc.violation("NaiveDate::iter:panic", format!("{:?}.iter_days()/iter_weeks() next / next_back / size_hint", d), "returns".into(), p);
        }
        for &h in &su {
            for &m in &[0u32, 59, 60, u32::MAX] {
                for &s in &[0u32, 59, 60, u32::MAX] {
                    call!(acc, "NaiveDate::and_hms_opt", format!("{:?}.and_hms_opt({}, {}, {})", d, h, m, s), d.and_hms_opt(h, m, s));
                    call!(acc, "NaiveDate::and_hms_milli_opt", format!("{:?}.and_hms_milli_opt({}, {}, {}, {})", d, m, s, m, h), d.and_hms_milli_opt(m % 24, s % 60, m % 60, h));
                    call!(acc, "NaiveDate::and_hms_micro_opt", format!("{:?}.and_hms_micro_opt(.., {})", d, h), d.and_hms_micro_opt(m % 24, s % 60, 59, h));
                    call!(acc, "NaiveDate::and_hms_nano_opt", format!("{:?}.and_hms_nano_opt(.., {})", d, h), d.and_hms_nano_opt(m % 24, s % 60, 59, h));
                }
            }
        }
        // NaiveDateTime at the same dates
        for (s, f) in [(0u32, 0u32), (86399, 999_999_999), (86399, 1_999_999_999)] {
            let t = d.and_time(mk_time(s, f));
            for &x in &ds {
                call!(acc, "NaiveDateTime::checked_add_signed", format!("{:?}.checked_add_signed({:?})", t, x), t.checked_add_signed(x));
                call!(acc, "NaiveDateTime::checked_sub_signed", format!("{:?}.checked_sub_signed({:?})", t, x), t.checked_sub_signed(x));
            }
            for &n in &u32s {
                call!(acc, "NaiveDateTime::checked_add_months", format!("{:?}.checked_add_months(Months::new({}))", t, n), t.checked_add_months(Months::new(n)));
                call!(acc, "NaiveDateTime::checked_sub_months", format!("{:?}.checked_sub_months(Months::new({}))", t, n), t.checked_sub_months(Months::new(n)));
                call!(acc, "NaiveDateTime::with_hour", format!("{:?}.with_hour({})", t, n), t.with_hour(n));
                call!(acc, "NaiveDateTime::with_minute", format!("{:?}.with_minute({})", t, n), t.with_minute(n));
                call!(acc, "NaiveDateTime::with_second", format!("{:?}.with_second({})", t, n), t.with_second(n));
                call!(acc, "NaiveDateTime::with_nanosecond", format!("{:?}.with_nanosecond({})", t, n), t.with_nanosecond(n));
                call!(acc, "NaiveDateTime::with_day", format!("{:?}.with_day({})", t, n), t.with_day(n));
                call!(acc, "NaiveDateTime::with_ordinal0", format!("{:?}.with_ordinal0({})", t, n), t.with_ordinal0(n));
            }
            for &n in &u64s {
                call!(acc, "NaiveDateTime::checked_add_days", format!("{:?}.checked_add_days(Days::new({}))", t, n), t.checked_add_days(Days::new(n)));
                call!(acc, "NaiveDateTime::checked_sub_days", format!("{:?}.checked_sub_days(Days::new({}))", t, n), t.checked_sub_days(Days::new(n)));
            }
            for o in [-86399, -3600, -1, 0, 1, 3600, 86399] {
                let fo = FixedOffset::east_opt(o).unwrap();
                call!(acc, "NaiveDateTime::checked_add_offset", format!("{:?}.checked_add_offset({})", t, o), t.checked_add_offset(fo));
                call!(acc, "NaiveDateTime::checked_sub_offset", format!("{:?}.checked_sub_offset({})", t, o), t.checked_sub_offset(fo));
                call!(acc, "NaiveDateTime::and_local_timezone", format!("{:?}.and_local_timezone(FixedOffset({}))", t, o), t.and_local_timezone(fo).single());
                call!(acc, "TimeZone::from_local_datetime", format!("FixedOffset({}).from_local_datetime({:?})", o, t), fo.from_local_datetime(&t).single());
            }
            call!(acc, "NaiveDateTime::and_local_timezone", format!("{:?}.and_local_timezone(Local)", t), t.and_local_timezone(Local).earliest());
            for &y in &i32s {
                call!(acc, "NaiveDateTime::with_year", format!("{:?}.with_year({})", t, y), t.with_year(y));
            }
            for &sp in &ds {
                call!(acc, "NaiveDateTime::duration_round", format!("{:?}.duration_round({:?})", t, sp), t.duration_round(sp).ok());
                call!(acc, "NaiveDateTime::duration_trunc", format!("{:?}.duration_trunc({:?})", t, sp), t.duration_trunc(sp).ok());
                call!(acc, "NaiveDateTime::duration_round_up", format!("{:?}.duration_round_up({:?})", t, sp), t.duration_round_up(sp).ok());
            }
        }
    }
    // rounding at the ends of the 64-bit nanosecond window (the stamp fits, intermediate sums may not)
    for inst in [i64::MAX as i128, i64::MAX as i128 - 1, i64::MAX as i128 - 499_999_999, i64::MAX as i128 + 1, i64::MIN as i128, i64::MIN as i128 + 1, i64::MIN as i128 + 500_000_000, i64::MIN as i128 - 1, 0, -1, 1] {
        let t = mk_ndt_inst(inst);
        let u = t.and_utc();
        let o = FixedOffset::east_opt(-3600).unwrap().from_utc_datetime(&t);
        for &sp in &ds {
            call!(acc, "NaiveDateTime::duration_round", format!("{:?}.duration_round({:?})", t, sp), t.duration_round(sp).ok());
            call!(acc, "NaiveDateTime::duration_trunc", format!("{:?}.duration_trunc({:?})", t, sp), t.duration_trunc(sp).ok());
            call!(acc, "NaiveDateTime::duration_round_up", format!("{:?}.duration_round_up({:?})", t, sp), t.duration_round_up(sp).ok());
            call!(acc, "DateTime::duration_round", format!("{:?}.duration_round({:?})", u, sp), u.duration_round(sp).ok());
            call!(acc, "DateTime::duration_trunc", format!("{:?}.duration_trunc({:?})", o, sp), o.duration_trunc(sp).ok());
            call!(acc, "DateTime::duration_round_up", format!("{:?}.duration_round_up({:?})", o, sp), o.duration_round_up(sp).ok());
        }
    }
    // NaiveTime with_*
    for (s, f) in [(0u32, 0u32), (86399, 1_999_999_999), (43200, 5)] {
        let t = mk_time(s, f);
        for &n in &u32s {
            call!(acc, "NaiveTime::with_hour", format!("{:?}.with_hour({})", t, n), t.with_hour(n));
            call!(acc, "NaiveTime::with_minute", format!("{:?}.with_minute({})", t, n), t.with_minute(n));
            call!(acc, "NaiveTime::with_second", format!("{:?}.with_second({})", t, n), t.with_second(n));
            call!(acc, "NaiveTime::with_nanosecond", format!("{:?}.with_nanosecond({})", t, n), t.with_nanosecond(n));
        }
        for &x in &deltas() {
            acc.transitions += 2;
            match guard(|| (t.overflowing_add_signed(x), t.overflowing_sub_signed(x))) {
                Ok(((a, _), (b, _))) if ok_time(a) && ok_time(b) => acc.hit(VALID),
                other => acc.violation("NaiveTime::overflowing_add_signed", format!("{:?}.overflowing_add_signed / overflowing_sub_signed({:?})", t, x), "valid times of day".into(), format!("{:?}", other)),
            }
        }
    }
}

fn receivers_zoned(acc: &mut Acc) {
    let mut u32s = lat_u32();
    // decimal field limits (seconds, nanoseconds incl. the leap range, ordinals) next to the binary lattice
    u32s.extend([23, 24, 59, 60, 61, 365, 366, 367, 999_999_999, 1_000_000_000, 1_000_000_001, 1_999_999_999, 2_000_000_000, 2_000_000_001, 86_399, 86_400]);
    u32s.sort();
    u32s.dedup();
    let u64s = lat_u64();
    let i32s = lat_i32();
    let ds = deltas();
    let mut recv: Vec<DateTime<FixedOffset>> = vec![];
    for base in [DateTime::<Utc>::MIN_UTC, DateTime::<Utc>::MAX_UTC, DateTime::<Utc>::UNIX_EPOCH, DateTime::<Utc>::MIN_UTC + TimeDelta::seconds(86400), DateTime::<Utc>::MAX_UTC - TimeDelta::seconds(86400)] {
        for o in [0, 1, -1, 3600, -3600, 86399, -86399] {
            recv.push(base.with_timezone(&FixedOffset::east_opt(o).unwrap()));
        }
    }
    recv.push(FixedOffset::east_opt(0).unwrap().from_utc_datetime(&mk_ndt(MAX_DAY, 86399, 1_999_999_999)));
    // the years at which printed forms change width or sign (renderers, Display, format), reached directly and through an offset
    for (y, first) in [(0i64, true), (0, false), (-1, false), (1, true), (9999, false), (10000, true), (10000, false), (-9999, true), (-10000, false), (1000, true), (999, false), (99999, false), (100000, true), (-99999, true), (-100000, false)] {
        let z = if first { days_from_civil(y, 1, 1) } else { days_from_civil(y, 12, 31) };
        let (s, f) = if first { (0, 0) } else { (86399, 999_999_999) };
        for o in [0, 1800, -1800, 86399, -86399] {
            recv.push(FixedOffset::east_opt(o).unwrap().from_utc_datetime(&mk_ndt(z, s, f)));
        }
    }
    for dt in &recv {
        let dt = *dt;
        let local_day = date_z(dt.naive_utc().date()) as i128 * 86400 + dt.naive_utc().time().num_seconds_from_midnight() as i128 + dt.offset().local_minus_utc() as i128;
        if local_day < MIN_DAY as i128 * 86400 || local_day >= (MAX_DAY as i128 + 1) * 86400 {
            acc.hit_nt(HEADROOM);
        }
        let d = || format!("{:?} (utc {:?}, offset {})", dt.naive_utc(), dt.naive_utc(), dt.offset().local_minus_utc());
        for &x in &ds {
            call!(acc, "DateTime::checked_add_signed", format!("[{}].checked_add_signed({:?})", d(), x), dt.checked_add_signed(x));
            call!(acc, "DateTime::checked_sub_signed", format!("[{}].checked_sub_signed({:?})", d(), x), dt.checked_sub_signed(x));
            call!(acc, "DateTime::duration_round", format!("[{}].duration_round({:?})", d(), x), dt.duration_round(x).ok());
            call!(acc, "DateTime::duration_trunc", format!("[{}].duration_trunc({:?})", d(), x), dt.duration_trunc(x).ok());
            call!(acc, "DateTime::duration_round_up", format!("[{}].duration_round_up({:?})", d(), x), dt.duration_round_up(x).ok());
        }
        for &n in &u32s {
            call!(acc, "DateTime::checked_add_months", format!("[{}].checked_add_months(Months::new({}))", d(), n), dt.checked_add_months(Months::new(n)));
            call!(acc, "DateTime::checked_sub_months", format!("[{}].checked_sub_months(Months::new({}))", d(), n), dt.checked_sub_months(Months::new(n)));
            call!(acc, "DateTime::with_month", format!("[{}].with_month({})", d(), n), dt.with_month(n));
            call!(acc, "DateTime::with_month0", format!("[{}].with_month0({})", d(), n), dt.with_month0(n));
            call!(acc, "DateTime::with_day", format!("[{}].with_day({})", d(), n), dt.with_day(n));
            call!(acc, "DateTime::with_day0", format!("[{}].with_day0({})", d(), n), dt.with_day0(n));
            call!(acc, "DateTime::with_ordinal", format!("[{}].with_ordinal({})", d(), n), dt.with_ordinal(n));
            call!(acc, "DateTime::with_ordinal0", format!("[{}].with_ordinal0({})", d(), n), dt.with_ordinal0(n));
            call!(acc, "DateTime::with_hour", format!("[{}].with_hour({})", d(), n), dt.with_hour(n));
            call!(acc, "DateTime::with_minute", format!("[{}].with_minute({})", d(), n), dt.with_minute(n));
            call!(acc, "DateTime::with_second", format!("[{}].with_second({})", d(), n), dt.with_second(n));
            call!(acc, "DateTime::with_nanosecond", format!("[{}].with_nanosecond({})", d(), n), dt.with_nanosecond(n));
        }
        for &n in &u64s {
            call!(acc, "DateTime::checked_add_days", format!("[{}].checked_add_days(Days::new({}))", d(), n), dt.checked_add_days(Days::new(n)));
            call!(acc, "DateTime::checked_sub_days", format!("[{}].checked_sub_days(Days::new({}))", d(), n), dt.checked_sub_days(Days::new(n)));
        }
        for &y in &i32s {
            call!(acc, "DateTime::with_year", format!("[{}].with_year({})", d(), y), dt.with_year(y));
        }
        for (s, f) in [(0u32, 0u32), (82800, 0), (86399, 999_999_999), (86399, 1_999_999_999)] {
            call!(acc, "DateTime::with_time", format!("[{}].with_time({:?})", d(), mk_time(s, f)), dt.with_time(mk_time(s, f)).single());
        }
        for e in &recv {
            call!(acc, "DateTime::years_since", format!("[{}].years_since(..)", d()), dt.years_since(*e).map(|_| ()));
        }
        call!(acc, "DateTime::timestamp_nanos_opt", format!("[{}].timestamp_nanos_opt()", d()), dt.timestamp_nanos_opt().map(|_| ()));
        // the RFC 3339 renderers (named in the statement) and the serializer
        for sf in [SecondsFormat::Secs, SecondsFormat::Millis, SecondsFormat::Micros, SecondsFormat::Nanos, SecondsFormat::AutoSi] {
            for z in [false, true] {
                call!(acc, "DateTime::to_rfc3339_opts", format!("[{}].to_rfc3339_opts({:?}, {})", d(), sf, z), Some(dt.to_rfc3339_opts(sf, z)).map(|_| ()));
            }
        }
        call!(acc, "DateTime::to_rfc3339", format!("[{}].to_rfc3339()", d()), Some(dt.to_rfc3339()).map(|_| ()));
        #[cfg(feature = "serde")]
        {
            call!(acc, "Serialize for DateTime", format!("serde_json::to_string(&[{}])", d()), serde_json::to_string(&dt).ok().map(|_| ()));
            call!(acc, "Serialize for DateTime", format!("bincode::serialize(&[{}])", d()), bincode::serialize(&dt).ok().map(|_| ()));
        }
        call!(acc, "DateTime:Display/Debug", format!("Display / Debug of [{}]", d()), Some((dt.to_string(), format!("{:?}", dt))).map(|_| ()));
        let mut s = String::new();
        call!(acc, "DateTime::format", format!("[{}].format(\"%Y-%m-%dT%H:%M:%S%.f%:z %s %c %+ %j %U %G-W%V\")", d()), Some(write!(s, "{}", dt.format("%Y-%m-%dT%H:%M:%S%.f%:z %s %c %+ %j %U %G-W%V"))).map(|_| ()));
        let u = dt.with_timezone(&Utc);
        let l = dt.with_timezone(&Local);
        call!(acc, "DateTime::with_timezone", format!("[{}].with_timezone(&Utc / &Local)", d()), Some(u));
        call!(acc, "DateTime::with_timezone", format!("[{}].with_timezone(&Local)", d()), Some(l));
    }
}

fn parsed_extremes(acc: &mut Acc) {
    let i64s = lat_i64();
    type Setter = (&'static str, fn(&mut Parsed, i64) -> chrono::ParseResult<()>);
    let setters: Vec<Setter> = vec![
        ("set_year", Parsed::set_year),
        ("set_year_div_100", Parsed::set_year_div_100),
        ("set_year_mod_100", Parsed::set_year_mod_100),
        ("set_isoyear", Parsed::set_isoyear),
        ("set_isoyear_div_100", Parsed::set_isoyear_div_100),
        ("set_isoyear_mod_100", Parsed::set_isoyear_mod_100),
        ("set_quarter", Parsed::set_quarter),
        ("set_month", Parsed::set_month),
        ("set_week_from_sun", Parsed::set_week_from_sun),
        ("set_week_from_mon", Parsed::set_week_from_mon),
        ("set_isoweek", Parsed::set_isoweek),
        ("set_ordinal", Parsed::set_ordinal),
        ("set_day", Parsed::set_day),
        ("set_hour12", Parsed::set_hour12),
        ("set_hour", Parsed::set_hour),
        ("set_minute", Parsed::set_minute),
        ("set_second", Parsed::set_second),
        ("set_nanosecond", Parsed::set_nanosecond),
        ("set_timestamp", Parsed::set_timestamp),
        ("set_offset", Parsed::set_offset),
    ];
    // every setter on the whole lattice; then resolution with that single extreme field on top of a sufficient base
    for (name, f) in &setters {
        for &v in &i64s {
            let mut p = Parsed::new();
            acc.transitions += 1;
            match guard(|| f(&mut p, v).is_ok()) {
                Ok(_) => acc.hit(NONE_ERR),
                Err(pn) => {
                    acc.violation("Parsed::set_*:panic", format!("Parsed::new().{}({})", name, v), "Ok / Err".into(), pn);
                    continue;
                }
            }
            for base in 0..6 {
                let mut q = Parsed::new();
                let _ = f(&mut q, v);
                // complete with consistent-looking other fields where still unset
                match base {
                    0 => {
                        let _ = q.set_year(2015);
                        let _ = q.set_month(9);
                        let _ = q.set_day(5);
                        let _ = q.set_hour(23);
                        let _ = q.set_minute(56);
                        let _ = q.set_second(60);
                        let _ = q.set_offset(3600);
                    }
                    1 => {
                        let _ = q.set_isoyear(262143);
                        let _ = q.set_isoweek(1);
                        let _ = q.set_weekday(Weekday::Mon);
                        let _ = q.set_hour(0);
                        let _ = q.set_minute(0);
                        let _ = q.set_offset(-86399);
                    }
                    2 => {
                        let _ = q.set_timestamp(MIN_DAY * 86400);
                        let _ = q.set_second(60);
                        let _ = q.set_offset(0);
                    }
                    4 => {
                        // no full year: the year has to be put together from century and two-digit year
                        let _ = q.set_year_div_100(21_474_836);
                        let _ = q.set_year_mod_100(99);
                        let _ = q.set_month(1);
                        let _ = q.set_day(1);
                        let _ = q.set_hour(0);
                        let _ = q.set_minute(0);
                        let _ = q.set_offset(0);
                    }
                    5 => {
                        let _ = q.set_isoyear_div_100(21_474_836);
                        let _ = q.set_isoyear_mod_100(99);
                        let _ = q.set_isoweek(1);
                        let _ = q.set_weekday(Weekday::Mon);
                        let _ = q.set_hour(0);
                        let _ = q.set_minute(0);
                        let _ = q.set_offset(0);
                    }
                    _ => {
                        let _ = q.set_timestamp((MAX_DAY + 1) * 86400 - 1);
                        let _ = q.set_second(60);
                        let _ = q.set_nanosecond(999_999_999);
                    }
                }
                for o in [0i32, 86399, -86399, i32::MAX, i32::MIN] {
                    call!(acc, "Parsed::to_naive_datetime_with_offset", format!("{:?}.to_naive_datetime_with_offset({})", q, o), q.to_naive_datetime_with_offset(o).ok());
                }
                call!(acc, "Parsed::to_naive_date", format!("{:?}.to_naive_date()", q), q.to_naive_date().ok());
                call!(acc, "Parsed::to_naive_time", format!("{:?}.to_naive_time()", q), q.to_naive_time().ok());
                call!(acc, "Parsed::to_datetime", format!("{:?}.to_datetime()", q), q.to_datetime().ok());
                call!(acc, "Parsed::to_fixed_offset", format!("{:?}.to_fixed_offset()", q), q.to_fixed_offset().ok().map(|_| ()));
                call!(acc, "Parsed::to_datetime_with_timezone", format!("{:?}.to_datetime_with_timezone(&Utc)", q), q.to_datetime_with_timezone(&Utc).ok());
                call!(acc, "Parsed::to_datetime_with_timezone", format!("{:?}.to_datetime_with_timezone(&FixedOffset(86399))", q), q.to_datetime_with_timezone(&FixedOffset::east_opt(86399).unwrap()).ok());
                call!(acc, "Parsed::to_datetime_with_timezone", format!("{:?}.to_datetime_with_timezone(&Local)", q), q.to_datetime_with_timezone(&Local).ok());
            }
        }
    }
}

const STR_ALPHA: &[char] = &['1', '9', '0', '-', '+', ':', '.', '%', ' ', 'T', 'Z', 'a', 'é', '\u{1F63D}', '(', ')', '\\', ',', '\u{3000}', '\u{0663}', '\0', '\r'];
const FMT_ALPHA: &[char] = &['%', '-', '_', '0', '#', ':', '.', '3', '6', '9', 'f', 'z', 'Y', '+', 'a', ' ', 'é', '\u{1F63D}', '\u{3000}', '\u{0B}', 'c'];

fn every_parser(acc: &mut Acc, s: &str) {
    note(&|| format!("parsing {:?} with every FromStr / RFC / parse_from_str entry point", s));
    enter();
    let mut any = false;
    macro_rules! p {
        ($key:expr, $e:expr) => {{
            acc.transitions += 1;
            match guard(|| $e) {
                Ok(r) => match Checkable::valid(&r) {
                    None => {}
                    Some(true) => any = true,
                    Some(false) => acc.violation(concat!($key, ":invalid-value"), format!("{} on {:?}", $key, s), "Err or a valid value".into(), format!("{:?}", r)),
                },
                Err(pn) => acc.violation(concat!($key, ":panic"), format!("{} on {:?}", $key, s), "Ok / Err".into(), format!("panic: {}", pn)),
            }
        }};
    }
    p!("NaiveDate::from_str", s.parse::<NaiveDate>().ok());
    p!("NaiveTime::from_str", s.parse::<NaiveTime>().ok());
    p!("NaiveDateTime::from_str", s.parse::<NaiveDateTime>().ok());
    p!("DateTime<Utc>::from_str", s.parse::<DateTime<Utc>>().ok());
    p!("DateTime<FixedOffset>::from_str", s.parse::<DateTime<FixedOffset>>().ok());
    p!("DateTime<Local>::from_str", s.parse::<DateTime<Local>>().ok());
    p!("FixedOffset::from_str", s.parse::<FixedOffset>().ok().map(|_| ()));
    p!("Weekday::from_str", s.parse::<Weekday>().ok().map(|_| ()));
    p!("Month::from_str", s.parse::<Month>().ok().map(|_| ()));
    p!("DateTime::parse_from_rfc2822", DateTime::parse_from_rfc2822(s).ok());
    p!("DateTime::parse_from_rfc3339", DateTime::parse_from_rfc3339(s).ok());
    for fmt in ["%Y-%m-%d", "%+", "%c", "%s", "%B", "%A", "%b %a", "%h%Z", "%a %b %e %T %Y %z", "%Y%m%d%H%M%S%.f%#z", "%G-W%V-%u %I %p %Z", "%D %r %:::z", "%v %X%.3f%::z", "%C%y%j %k%M %9f"] {
        p!("NaiveDate::parse_from_str", NaiveDate::parse_from_str(s, fmt).ok());
        p!("NaiveTime::parse_from_str", NaiveTime::parse_from_str(s, fmt).ok());
        p!("NaiveDateTime::parse_from_str", NaiveDateTime::parse_from_str(s, fmt).ok());
        p!("DateTime::parse_from_str", DateTime::parse_from_str(s, fmt).ok());
        p!("NaiveDate::parse_and_remainder", NaiveDate::parse_and_remainder(s, fmt).ok().map(|x| x.0));
        p!("NaiveTime::parse_and_remainder", NaiveTime::parse_and_remainder(s, fmt).ok().map(|x| x.0));
        p!("NaiveDateTime::parse_and_remainder", NaiveDateTime::parse_and_remainder(s, fmt).ok().map(|x| x.0));
        p!("DateTime::parse_and_remainder", DateTime::parse_and_remainder(s, fmt).ok().map(|x| x.0));
    }
    // the item-level reader, with borrowed and with owned items (formats that carry literal text, also multi-byte)
    static OWNED: std::sync::OnceLock<Vec<Vec<chrono::format::Item<'static>>>> = std::sync::OnceLock::new();
    const LIT_FMTS: [&str; 6] = ["ab%Y", "\u{e9}%d", "%Y\u{5e74}%m", "a%%b%j", "%Y-%m-%dT%H:%M:%S%z", "1 %H"];
    let owned = OWNED.get_or_init(|| LIT_FMTS.iter().map(|f| StrftimeItems::new(f).parse_to_owned().unwrap()).collect());
    for (k, fmt) in LIT_FMTS.iter().enumerate() {
        p!("format::parse (owned items)", {
            let mut pa = Parsed::new();
            chrono::format::parse(&mut pa, s, owned[k].iter()).ok().map(|_| ())
        });
        p!("format::parse (borrowed items)", {
            let mut pa = Parsed::new();
            chrono::format::parse(&mut pa, s, StrftimeItems::new(fmt)).ok().map(|_| ())
        });
        p!("format::parse_and_remainder (owned items)", {
            let mut pa = Parsed::new();
            chrono::format::parse_and_remainder(&mut pa, s, owned[k].iter()).ok().map(|_| ())
        });
    }
    leave();
    if any {
        acc.hit(STR_ACC);
    } else {
        acc.hit(STR_REJ);
    }
}

/// a sink that accepts only a few bytes: rendering into it fails, and the same formatter rendered again into a real
/// sink must then succeed with the full text (no latched failure, no leftover text)
struct TinySink(usize);
impl std::fmt::Write for TinySink {
    fn write_str(&mut self, s: &str) -> std::fmt::Result {
        if s.len() > self.0 {
            return Err(std::fmt::Error);
        }
        self.0 -= s.len();
        Ok(())
    }
}
fn rerender_after_failure(acc: &mut Acc, dt: &DateTime<FixedOffset>) {
    for fmt in ["%Y-%m-%dT%H:%M:%S%.f%:z", "%c", "%+", "%a %b %e %T %Y", "%D %r", "literal only"] {
        let df = dt.format(fmt);
        let full = df.to_string();
        for cap in [0usize, 1, 4, 10] {
            acc.transitions += 2;
            let r = guard(|| {
                let first = df.write_to(&mut TinySink(cap)).is_err() || full.len() <= cap;
                let mut again = String::new();
                let second = df.write_to(&mut again);
                (first, second.is_ok(), again, df.to_string())
            });
            match r {
                Ok((true, true, again, disp)) if again == full && disp == full => acc.hit(VALID),
                other => acc.violation("DelayedFormat:re-render-after-a-failed-write", format!("[{:?}].format({:?}) written into a sink of {} bytes, then rendered again", dt, fmt, cap), format!("Err on the small sink, then {:?} twice", full), format!("{:?}", other)),
            }
        }
    }
}

fn every_format(acc: &mut Acc, f: &str, dt: &DateTime<FixedOffset>) {
    note(&|| format!("format string {:?}: StrftimeItems iteration / parse / format / parse_from_str", f));
    enter();
    let bound = 16 * (f.len() + 1);
    acc.transitions += 4;
    for (lenient, name) in [(false, "StrftimeItems::new"), (true, "StrftimeItems::new_lenient")] {
        let r = guard(|| {
            let it = if lenient { StrftimeItems::new_lenient(f) } else { StrftimeItems::new(f) };
            let mut n = 0usize;
            let mut err = false;
            for item in it.take(bound + 1) {
                n += 1;
                if item == Item::Error {
                    err = true;
                }
            }
            (n, err)
        });
        match r {
            Ok((n, err)) => {
                if n > bound {
                    acc.violation("StrftimeItems:unbounded", format!("{}({:?}).count()", name, f), format!("at most {} items (linear in the input)", bound), format!("more than {} items", bound));
                    leave();
                    return;
                }
                if err {
                    acc.hit_nt(ITEM_ERR);
                    if lenient {
                        acc.violation("StrftimeItems::new_lenient:error-item", format!("StrftimeItems::new_lenient({:?})", f), "no Item::Error in lenient mode".into(), "Item::Error".into());
                    }
                } else {
                    acc.hit(ITEMS_OK);
                }
            }
            Err(p) => {
                acc.violation("StrftimeItems:panic", format!("{}({:?}) iterated", name, f), "terminates without panicking".into(), format!("panic: {}", p));
                leave();
                return;
            }
        }
    }
    let r = guard(|| (StrftimeItems::new(f).parse().is_ok(), StrftimeItems::new(f).parse_to_owned().is_ok(), StrftimeItems::new_lenient(f).parse().is_ok()));
    if let Err(p) = r {
        acc.violation("StrftimeItems::parse:panic", format!("StrftimeItems::new({:?}).parse() / parse_to_owned()", f), "Ok / Err".into(), format!("panic: {}", p));
    }
    // formatting and parsing with it must return
    let mut out = String::new();
    let r = guard(|| {
        let _ = write!(out, "{}", dt.format(f));
        let _ = write!(out, "{}", dt.naive_utc().format(f));
        let _ = write!(out, "{}", dt.naive_utc().date().format(f));
        let _ = write!(out, "{}", dt.naive_utc().time().format(f));
        let _ = dt.format(f).write_to(&mut out);
    });
    if let Err(p) = r {
        acc.violation("format:panic", format!("write!(s, \"{{}}\", value.format({:?}))", f), "Ok / Err(fmt::Error)".into(), format!("panic: {}", p));
    }
    for input in ["2001-07-08T00:34:60.026490+09:30", "", "12", "  +1"] {
        let r = guard(|| (DateTime::parse_from_str(input, f).is_ok(), NaiveDateTime::parse_from_str(input, f).is_ok(), NaiveDate::parse_from_str(input, f).is_ok(), NaiveTime::parse_from_str(input, f).is_ok(), NaiveDate::parse_and_remainder(input, f).is_ok()));
        if let Err(p) = r {
            acc.violation("parse_from_str:panic", format!("parse_from_str({:?}, {:?})", input, f), "Ok / Err".into(), format!("panic: {}", p));
        }
    }
    leave();
}

fn strings_upto(alpha: &[char], maxlen: usize, part: usize, nparts: usize, f: &mut dyn FnMut(&str)) {
    // all strings of length <= maxlen; the first character selects the part
    let mut buf = String::new();
    fn rec(alpha: &[char], buf: &mut String, left: usize, f: &mut dyn FnMut(&str)) {
        f(buf);
        if left == 0 {
            return;
        }
        for &c in alpha {
            buf.push(c);
            rec(alpha, buf, left - 1, f);
            buf.pop();
        }
    }
    if part == 0 {
        f("");
    }
    for (i, &c) in alpha.iter().enumerate() {
        if i % nparts != part {
            continue;
        }
        buf.clear();
        buf.push(c);
        rec(alpha, &mut buf, maxlen - 1, f);
    }
}

/// Inputs whose length or magnitude sits at a machine limit: decimal numbers of every digit count up to 40 (all nines,
/// one followed by zeros) and the neighbours of the 32- and 64-bit limits, bare and signed, alone and in the number
/// positions of the ISO and RFC 2822 forms; repeated structure (nested / long / many comments, white-space runs, zero
/// padding, fraction digits) at every length up to 300 and around 2^16 — into every parser.
fn long_inputs(acc: &mut Acc) {
    let mut nums: Vec<String> = vec![];
    for n in 1..=40usize {
        nums.push("9".repeat(n));
        nums.push(format!("1{}", "0".repeat(n - 1)));
        nums.push(format!("{}1", "0".repeat(n)));
    }
    for lim in [i32::MAX as i128, u32::MAX as i128, i64::MAX as i128, u64::MAX as i128, 262_143, 9_999, 99_999_999_999_999_999, 999_999_999_999_999_999, 1_000_000_000_000_000_000, 9_000_000_000_000_000_000, 9_999_999_999_999_999_999] {
        for d in -2..=2i128 {
            nums.push(format!("{}", lim + d));
        }
    }
    for num in &nums {
        for sign in ["", "+", "-"] {
            let v = format!("{}{}", sign, num);
            every_parser(acc, &v);
            every_parser(acc, &format!("{}-01-01", v));
            every_parser(acc, &format!("{}-01-01T00:00:00Z", v));
            every_parser(acc, &format!("2015-09-05T23:56:04.{}Z", num));
            every_parser(acc, &format!("23:56:04.{}", num));
            if sign.is_empty() {
                every_parser(acc, &format!("Tue, 1 Jul {} 10:52:37 +0200", num));
                every_parser(acc, &format!("Tue, {} Jul 2003 10:52:{} +{}", num, num, num));
                every_parser(acc, &format!("Sun Jul  8 00:34:60 {}", num));
                every_parser(acc, &format!("2001-W{}-7 12 AM CET", num));
            }
        }
        acc.states += 1;
    }
    for n in (1..=300usize).chain(65_534..=65_538) {
        every_parser(acc, &format!("Tue, 1 Jul 2003 10:52:37 +0200 {}{}", "(".repeat(n), ")".repeat(n)));
        every_parser(acc, &format!("Tue, 1 Jul 2003 10:52:37 +0200 {}", "(".repeat(n)));
        every_parser(acc, &format!("Tue, 1 Jul 2003 10:52:37 +0200 {}", "(\\".repeat(n)));
        every_parser(acc, &format!("Tue, 1 Jul 2003 10:52:37 +0200 ({})", "x".repeat(n)));
        every_parser(acc, &format!("Tue, 1 Jul 2003 10:52:37 +0200{}", " (a)".repeat(n)));
        every_parser(acc, &format!("Tue,{}1 Jul 2003 10:52:37 +0200", " ".repeat(n)));
        every_parser(acc, &format!("2015-09-05{}23:56:04", " ".repeat(n)));
        every_parser(acc, &format!("{}2015-09-05", "0".repeat(n)));
        every_parser(acc, &format!("2015-09-05T23:56:04.{}Z", "5".repeat(n)));
        every_parser(acc, &"9".repeat(n));
        acc.states += 1;
    }
}

const VALID_INPUTS: &[&str] = &[
    "2015-09-05", "23:56:04.012345678", "2015-09-05T23:56:04", "2015-09-05 23:56:04 UTC", "2015-09-05T23:56:04+09:30", "+12345-12-31T23:59:60.5Z", "-0001-01-01 00:00:00 +00:00", "Tue, 1 Jul 2003 10:52:37 +0200",
    "Fri, 21 Nov 97 09:55:06 -0600 (comment (nested))", "1996-12-19T16:39:57-08:00", "+09:30", "-23:59", "Wednesday", "sep", "September", "Sun Jul  8 00:34:60 2001", "994518299", "-8334601228800", "20010708003459.026+0930", "2001-W27-7 12 AM CET", "Jan", "Sept", "Thurs", "December", "Wed",
];
const VALID_FORMATS: &[&str] = &["%Y-%m-%dT%H:%M:%S%.f%:z", "%a, %d %b %Y %T %z", "%+", "%c", "%s%.3f", "%-d/%_m/%0y %l:%M %P", "%G-W%V-%u", "%D %r", "%::z%:::z%#z", "%%%t%n%Z"];

fn main() {
    install_panic_hook();
    let args = parse_args();
    let start = Instant::now();
    start_watchdog();
    let spec = Spec {
        property: "C15",
        classes: CLASSES,
        required: &["returned_none_or_err", "returned_value_valid", "range_end_receiver", "headroom_receiver", "format_items_bounded", "format_error_item", "string_rejected", "string_accepted"],
        rule: "every public non-deprecated fallible entry point (table in the driver, mirrored in DESIGN.md appendix A) x the complete product of integer lattices (type extremes, +-2^k, +-2^k+-1, decimal edges, alias classes) per argument (<= 3 arguments: full product; more: boundary subsets), receivers at both range ends incl. zone-aware values whose local reading lies in the one-day headroom and a leap second on the last second; strings: ALL strings of length <= 4 (thorough 5) over a 22-symbol trigger alphabet and all 1-edit mutants of 20 valid inputs, into every FromStr, both RFC parsers and parse_from_str / parse_and_remainder under 10 formats; decimal numbers of every digit count up to 40 and around the 32- / 64-bit limits in every number position, repeated structure (comments, white space, padding, fraction digits) at every length up to 300 and around 2^16; format strings: repeated items / literals / flags at those lengths and ALL strings of length <= 5 (thorough 6) over a 21-symbol alphabet and all 1-edit mutants of 10 valid formats: StrftimeItems::new / new_lenient must end within 16*(len+1) items, parse / parse_to_owned / format / parse_from_str with them must return; every call runs under the panic monitor, every returned value is re-validated (fields in range, instant within [MIN, MAX]); a watchdog turns a call that does not return within 60 s into a violation",
        assumptions: &["panics are accepted only at the documented sites (operator arithmetic, deprecated constructors, naive_local()/date_naive() on headroom values, to_rfc2822 outside 0..=9999, Display of an invalid format) — those are simply not called here", "the item bound is linear with a generous constant (a composite specifier expands 2 bytes into up to 13 items)"],
    };
    let tier = args.tier;
    let slen = if tier == Tier::Thorough { 5 } else { 4 };
    let flen = if tier == Tier::Thorough { 6 } else { 5 };
    let nsp = STR_ALPHA.len() as u64;
    let nfp = FMT_ALPHA.len() as u64;
    let only = replay_unit(&args);
    let dtf = FixedOffset::east_opt(34200).unwrap().from_local_datetime(&mk_ndt(days_from_civil(2001, 7, 8), 34 * 60 + 59, 1_026_490_708)).unwrap();
    let dtm = FixedOffset::east_opt(-86399).unwrap().from_utc_datetime(&mk_ndt(MIN_DAY, 0, 0));
    let acc = explore_units(4 + 3 + nsp + nfp + 2, CLASSES.len(), only, |u, acc| {
        beat();
        if u < 4 {
            constructors(acc, u);
        } else if u == 4 {
            receivers_naive(acc);
        } else if u == 5 {
            receivers_zoned(acc);
            // a zone whose skipped / repeated hours lie at the range ends: no invalid value, no panic
            chrono_mc::gfzone::range_end_safety(acc, VALID);
            rerender_after_failure(acc, &dtf);
            rerender_after_failure(acc, &dtm);
        } else if u == 6 {
            parsed_extremes(acc);
            long_inputs(acc);
            // long format strings: many items, long literals, long runs of flags and of white space
            for n in (1..=300usize).chain(65_534..=65_538) {
                for f in ["%Y".repeat(n), "a".repeat(n), format!("%{}Y", "0".repeat(n)), format!("%Y{}%m", " ".repeat(n)), "%".repeat(n), format!("%.{}f", "9".repeat(n)), "\u{e9}".repeat(n), format!("%{}z", ":".repeat(n))] {
                    every_format(acc, &f, &dtf);
                }
            }
        } else if u < 7 + nsp {
            let mut n = 0u64;
            strings_upto(STR_ALPHA, slen, (u - 7) as usize, nsp as usize, &mut |s| {
                every_parser(acc, s);
                n += 1;
            });
            acc.states += n;
            if u == 7 {
                acc.sample(|| format!("all {} strings of length <= {} starting with {:?}, into every parser", n, slen, STR_ALPHA[0]));
            }
        } else if u < 7 + nsp + nfp {
            let mut n = 0u64;
            strings_upto(FMT_ALPHA, flen, (u - 7 - nsp) as usize, nfp as usize, &mut |f| {
                every_format(acc, f, &dtf);
                n += 1;
            });
            acc.states += n;
            if u == 7 + nsp {
                acc.sample(|| format!("all {} format strings of length <= {} starting with '%': item count bound, parse, format, parse_from_str", n, flen));
            }
        } else if u == 7 + nsp + nfp {
            // 1-edit mutants of valid inputs
            for base in VALID_INPUTS {
                let cs: Vec<char> = base.chars().collect();
                every_parser(acc, base);
                for i in 0..=cs.len() {
                    for &a in STR_ALPHA {
                        let mut x = cs.clone();
                        x.insert(i, a);
                        every_parser(acc, &x.iter().collect::<String>());
                        if i < cs.len() {
                            let mut y = cs.clone();
                            y[i] = a;
                            every_parser(acc, &y.iter().collect::<String>());
                        }
                    }
                    if i < cs.len() {
                        let mut z = cs.clone();
                        z.remove(i);
                        every_parser(acc, &z.iter().collect::<String>());
                    }
                    // every prefix, alone and followed by 1..=2 characters of 2, 3 and 4 bytes (byte-length slicing traps)
                    let pre: String = cs[..i].iter().collect();
                    every_parser(acc, &pre);
                    for a in ['é', '€', '\u{1F600}'] {
                        every_parser(acc, &format!("{}{}", pre, a));
                        for b in ['é', '€', '\u{1F600}', 'x'] {
                            every_parser(acc, &format!("{}{}{}", pre, a, b));
                        }
                    }
                }
                acc.states += 1;
            }
        } else {
            for base in VALID_FORMATS {
                let cs: Vec<char> = base.chars().collect();
                every_format(acc, base, &dtf);
                every_format(acc, base, &dtm);
                for i in 0..=cs.len() {
                    for &a in FMT_ALPHA {
                        let mut x = cs.clone();
                        x.insert(i, a);
                        every_format(acc, &x.iter().collect::<String>(), &dtf);
                        if i < cs.len() {
                            let mut y = cs.clone();
                            y[i] = a;
                            every_format(acc, &y.iter().collect::<String>(), &dtm);
                        }
                    }
                    if i < cs.len() {
                        let mut z = cs.clone();
                        z.remove(i);
                        every_format(acc, &z.iter().collect::<String>(), &dtf);
                    }
                    every_format(acc, &cs[..i].iter().collect::<String>(), &dtf);
                }
                acc.states += 1;
            }
        }
        acc.traces += 1;
        beat();
    });
    let extra = Extra {
        bounds: json!({"i32_lattice": lat_i32().len(), "u32_lattice": lat_u32().len(), "i64_lattice": lat_i64().len(), "u64_lattice": lat_u64().len(), "string_alphabet": STR_ALPHA.iter().collect::<String>(), "string_len": slen, "format_alphabet": FMT_ALPHA.iter().collect::<String>(), "format_len": flen, "item_bound": "16*(len+1)", "valid_inputs_mutated": VALID_INPUTS.len(), "valid_formats_mutated": VALID_FORMATS.len()}),
        exhaustive: false,
        more: vec![],
    };
    finish(&spec, &args, start, acc, extra);
}
