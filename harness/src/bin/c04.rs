//! C04 — zone-aware date-times: one instant, many wall clocks. Shapes P (instants x offsets) + H (one replacement / stepping step).
use chrono::{DateTime, Datelike, Days, FixedOffset, MappedLocalTime, Months, NaiveDateTime, TimeZone, Timelike, Utc};
use chrono_mc::core::*;
use chrono_mc::gfzone::*;
use chrono_mc::lattice::*;
use chrono_mc::refcal::*;
use serde_json::json;
use std::collections::hash_map::DefaultHasher;
use std::hash::{Hash, Hasher};
use std::time::Instant;

const CLASSES: &[&str] = &["zone_gap_refused", "zone_fold_either", "zone_single", "built_from_utc", "built_from_local", "local_refused", "headroom_reading", "replace_ok", "replace_none", "replace_out_of_range", "headroom_either", "step_ok", "step_none", "with_time_refused", "pair_equal_instants", "pair_ordered", "hash_equal"];
const Z_GAP: usize = 0;
const Z_FOLD: usize = 1;
const Z_SINGLE: usize = 2;
const FROM_UTC: usize = 3;
const FROM_LOCAL: usize = 4;
const LOCAL_REF: usize = 5;
const HEADROOM: usize = 6;
const RP_OK: usize = 7;
const RP_NONE: usize = 8;
const RP_OOR: usize = 9;
const EITHER: usize = 10;
const ST_OK: usize = 11;
const ST_NONE: usize = 12;
const WT_REF: usize = 13;
const P_EQ: usize = 14;
const P_ORD: usize = 15;
const H_EQ: usize = 16;

/// a reading: (day number, second of day, nanosecond field incl. leap)
type Rd = (i64, u32, u32);

fn shift(r: Rd, by: i64) -> Rd {
    let t = r.1 as i64 + by;
    (r.0 + t.div_euclid(86400), t.rem_euclid(86400) as u32, r.2)
}
fn utc_ok(r: Rd) -> bool {
    day_in_range(r.0)
}
fn hash_of<T: Hash>(t: &T) -> u64 {
    let mut h = DefaultHasher::new();
    t.hash(&mut h);
    h.finish()
}

enum Want {
    Value(Rd),
    Nothing,
    Either(Rd),
}

/// expectation for an operation that produces the wall-clock reading `w` (None = no such date/time)
fn rule(w: Option<Rd>, off: i32) -> Want {
    match w {
        None => Want::Nothing,
        Some(w) => {
            let u = shift(w, -(off as i64));
            if !utc_ok(u) {
                Want::Nothing
            } else if u.0 == MAX_DAY && u.1 == 86399 && u.2 >= 1_000_000_000 {
                // a leap second on the very last second of the range compares greater than the maximum
                Want::Either(w)
            } else if day_in_range(w.0) {
                Want::Value(w)
            } else {
                Want::Either(w)
            }
        }
    }
}

fn judge(acc: &mut Acc, key: &str, call: &dyn Fn() -> String, got: Result<Option<DateTime<FixedOffset>>, String>, want: Want, off: i32, okc: usize, nonec: usize) {
    acc.transitions += 1;
    let got = match got {
        Ok(g) => g,
        Err(p) => {
            acc.violation(&format!("{}:panic", key), call(), "a value or None".into(), format!("panic: {}", p));
            return;
        }
    };
    // never an invalid value
    if let Some(r) = got {
        let u = ndt_parts(r.naive_utc());
        if !utc_ok(u) || r.naive_utc() < NaiveDateTime::MIN {
            acc.violation(&format!("{}:out-of-range-value", key), call(), "None (instant outside the supported range)".into(), format!("{:?} (utc {:?})", r, r.naive_utc()));
            return;
        }
    }
    let check_val = |acc: &mut Acc, r: DateTime<FixedOffset>, w: Rd| {
        let u = shift(w, -(off as i64));
        if ndt_parts(r.naive_utc()) != u || r.offset().local_minus_utc() != off {
            let (y, m, d) = civil_from_days(w.0);
            acc.violation(key, call(), format!("wall clock {}-{:02}-{:02} sec-of-day {} nano {} at offset {}", y, m, d, w.1, w.2, off), format!("{:?}", r));
            false
        } else {
            true
        }
    };
    match (got, want) {
        (Some(r), Want::Value(w)) => {
            if check_val(acc, r, w) {
                acc.hit(okc)
            }
        }
        (None, Want::Nothing) => acc.hit_nt(nonec),
        (Some(r), Want::Either(w)) => {
            if check_val(acc, r, w) {
                acc.hit_nt(EITHER)
            }
        }
        (None, Want::Either(_)) => acc.hit_nt(EITHER),
        (None, Want::Value(w)) => {
            let (y, m, d) = civil_from_days(w.0);
            acc.violation(&format!("{}:refuses", key), call(), format!("Some(wall clock {}-{:02}-{:02} sec {} nano {})", y, m, d, w.1, w.2), "None".into());
        }
        (Some(r), Want::Nothing) => acc.violation(&format!("{}:accepts", key), call(), "None".into(), format!("Some({:?})", r)),
    }
}

fn with_date(w: Rd, ymd: Option<(i64, u32, u32)>) -> Option<Rd> {
    let (y, m, d) = ymd?;
    if m < 1 || m > 12 || d < 1 || d > days_in_month(y, m) || y < MIN_YEAR - 1 || y > MAX_YEAR + 1 {
        return None;
    }
    Some((days_from_civil(y, m, d), w.1, w.2))
}

fn state(acc: &mut Acc, utc: Rd, off: i32, light: bool, args_u32: &[u32], years_arg: &[i64]) {
    let fo = FixedOffset::east_opt(off).unwrap();
    let ndt = mk_ndt(utc.0, utc.1, utc.2);
    let dt: DateTime<FixedOffset> = fo.from_utc_datetime(&ndt);
    let w = shift(utc, off as i64);
    acc.states += 1;
    acc.transitions += 2;
    if dt.naive_utc() != ndt || dt.offset().local_minus_utc() != off {
        acc.violation("TimeZone::from_utc_datetime", format!("FixedOffset({}).from_utc_datetime({:?}).naive_utc()", off, ndt), format!("{:?}", ndt), format!("{:?}", dt.naive_utc()));
        return;
    }
    acc.hit(FROM_UTC);
    let in_nominal = day_in_range(w.0);
    if in_nominal {
        let wl = mk_ndt(w.0, w.1, w.2);
        match guard(|| fo.from_local_datetime(&wl)) {
            Ok(MappedLocalTime::Single(d2)) if d2.naive_utc() == ndt && d2.naive_local() == wl && d2 == dt => acc.hit(FROM_LOCAL),
            other => acc.violation("TimeZone::from_local_datetime", format!("FixedOffset({}).from_local_datetime({:?})", off, wl), format!("Single(instant {:?})", ndt), format!("{:?}", other)),
        }
        acc.transitions += 1;
        if guard(|| dt.naive_local()) != Ok(wl) {
            acc.violation("DateTime::naive_local", format!("{:?}.naive_local()", dt), format!("{:?}", wl), format!("{:?}", guard(|| dt.naive_local())));
        }
    } else {
        acc.hit_nt(HEADROOM);
    }
    // a wall clock reading whose instant would leave the range is refused: use the utc reading as a wall clock
    {
        let as_wall = ndt;
        let u2 = shift(utc, -(off as i64));
        acc.transitions += 1;
        match (guard(|| fo.from_local_datetime(&as_wall)), utc_ok(u2)) {
            (Ok(MappedLocalTime::Single(d2)), true) if ndt_parts(d2.naive_utc()) == u2 => {}
            (Ok(MappedLocalTime::None), false) => acc.hit_nt(LOCAL_REF),
            (g, ok) => acc.violation("TimeZone::from_local_datetime:range", format!("FixedOffset({}).from_local_datetime({:?})", off, as_wall), if ok { "Single".into() } else { "None (instant outside the range)".to_string() }, format!("{:?}", g)),
        }
    }
    // conversions keep the instant
    acc.transitions += 4;
    let u: DateTime<Utc> = dt.with_timezone(&Utc);
    let f2 = dt.with_timezone(&FixedOffset::east_opt(-off).unwrap());
    if u.naive_utc() != ndt || dt.to_utc().naive_utc() != ndt || dt.fixed_offset().naive_utc() != ndt || f2.naive_utc() != ndt || f2.offset().local_minus_utc() != -off {
        acc.violation("DateTime::with_timezone", format!("{:?} converted to Utc / fixed_offset / offset {}", dt, -off), format!("instant {:?}", ndt), format!("{:?} {:?} {:?} {:?}", u, dt.to_utc(), dt.fixed_offset(), f2));
    }
    // equality / order / hash against the same instant in another zone
    acc.transitions += 3;
    if !(dt == f2) || !(u == dt) || dt.cmp(&dt.fixed_offset()) != std::cmp::Ordering::Equal || dt.partial_cmp(&f2) != Some(std::cmp::Ordering::Equal) {
        acc.violation("DateTime::eq", format!("{:?} == the same instant at offset {}", dt, -off), "true".into(), "false".into());
    } else {
        acc.hit(P_EQ);
    }
    if hash_of(&dt) != hash_of(&f2) || hash_of(&dt) != hash_of(&u) {
        acc.violation("DateTime::hash", format!("hash of {:?} vs the same instant at offset {} / in Utc", dt, -off), "equal hashes".into(), "different hashes".into());
    } else {
        acc.hit(H_EQ);
    }
    // accessors show the wall clock (also in the headroom)
    let (y, m, d) = civil_from_days(w.0);
    let ord = ordinal(y, m, d);
    let wd = weekday_from_days(w.0);
    let (iy, iw) = iso_week_of(w.0);
    acc.transitions += 2;
    let got = guard(|| (dt.year() as i64, dt.month(), dt.day(), dt.ordinal(), dt.weekday().num_days_from_monday(), dt.hour(), dt.minute(), dt.second(), dt.nanosecond(), dt.month0(), dt.day0(), dt.ordinal0()));
    let want = (y, m, d, ord, wd, w.1 / 3600, w.1 / 60 % 60, w.1 % 60, w.2, m - 1, d - 1, ord - 1);
    if got != Ok(want) {
        acc.violation("DateTime:accessors", format!("Datelike/Timelike accessors of {:?} (utc {:?}, offset {})", dt, ndt, off), format!("{:?}", want), format!("{:?}", got));
    }
    let giso = guard(|| (dt.iso_week().year() as i64, dt.iso_week().week()));
    if giso != Ok((iy, iw)) {
        acc.violation("DateTime::iso_week", format!("{:?}.iso_week()", dt), format!("{:?}", (iy, iw)), format!("{:?}", giso));
    }
    // sibling forms of the constructions, conversions and comparisons
    {
        acc.transitions += 6;
        #[allow(deprecated)]
        let olds = (DateTime::<FixedOffset>::from_naive_utc_and_offset(ndt, fo), DateTime::<FixedOffset>::from_utc(ndt, fo));
        if olds.0 != dt || olds.0.naive_utc() != ndt || olds.0.offset().local_minus_utc() != off || olds.1.naive_utc() != ndt || olds.1.offset().local_minus_utc() != off {
            acc.violation("DateTime::from_naive_utc_and_offset / from_utc", format!("DateTime::from_naive_utc_and_offset({:?}, {})", ndt, fo), format!("instant {:?} at offset {}", ndt, off), format!("{:?} / {:?}", olds.0, olds.1));
        }
        let cu: DateTime<Utc> = DateTime::from(dt);
        let cf: DateTime<FixedOffset> = DateTime::from(cu);
        if cu.naive_utc() != ndt || cf.naive_utc() != ndt || cf.offset().local_minus_utc() != 0 || ndt.and_utc() != cu || ndt.and_utc().naive_utc() != ndt {
            acc.violation("DateTime:From conversions", format!("DateTime::<Utc>::from({:?}) and back to DateTime<FixedOffset>; NaiveDateTime::and_utc", dt), format!("instant {:?} (offset 0 on the way back)", ndt), format!("{:?} / {:?} / {:?}", cu, cf, ndt.and_utc()));
        }
        if u.partial_cmp(&dt) != Some(std::cmp::Ordering::Equal) || dt.partial_cmp(&u) != Some(std::cmp::Ordering::Equal) || !(cf == dt) || dt != cu {
            acc.violation("DateTime::partial_cmp across zones", format!("{:?} compared with the same instant in Utc", dt), "Equal".into(), format!("{:?} / {:?}", u.partial_cmp(&dt), dt.partial_cmp(&u)));
        }
        if fo.offset_from_utc_datetime(&ndt) != fo || dt.timezone() != fo || *dt.offset() != fo {
            acc.violation("FixedOffset::offset_from_utc_datetime / timezone()", format!("FixedOffset({}) read back from {:?}", off, dt), format!("{:?}", fo), format!("{:?} / {:?} / {:?}", fo.offset_from_utc_datetime(&ndt), dt.timezone(), dt.offset()));
        }
        let tl = guard(|| (dt.num_seconds_from_midnight(), dt.hour12(), dt.time().num_seconds_from_midnight(), dt.time().nanosecond()));
        let h = w.1 / 3600;
        if tl != Ok((w.1, (h >= 12, if h % 12 == 0 { 12 } else { h % 12 }), w.1, w.2)) {
            acc.violation("DateTime:Timelike derived readers", format!("num_seconds_from_midnight / hour12 / time() of {:?} (utc {:?}, offset {})", dt, ndt, off), format!("{:?}", (w.1, (h >= 12, if h % 12 == 0 { 12 } else { h % 12 }), w.1, w.2)), format!("{:?}", tl));
        }
        if in_nominal {
            let wl = mk_ndt(w.0, w.1, w.2);
            acc.transitions += 3;
            #[allow(deprecated)]
            let fl = guard(|| DateTime::<FixedOffset>::from_local(wl, fo));
            let al = wl.and_local_timezone(fo).single();
            if fl.as_ref().ok().map(|x| x.naive_utc()) != Some(ndt) || al.map(|x| (x.naive_utc(), x.offset().local_minus_utc())) != Some((ndt, off)) || fo.offset_from_local_datetime(&wl).single() != Some(fo) {
                acc.violation("DateTime::from_local / and_local_timezone", format!("DateTime::from_local({:?}, {}) / NaiveDateTime::and_local_timezone", wl, fo), format!("instant {:?}", ndt), format!("{:?} / {:?}", fl, al));
            }
            if w.2 == 0 {
                let g = guard(|| fo.with_ymd_and_hms(y as i32, m, d, w.1 / 3600, w.1 / 60 % 60, w.1 % 60).single());
                if g != Ok(Some(dt)) {
                    acc.violation("TimeZone::with_ymd_and_hms", format!("FixedOffset({}).with_ymd_and_hms({}, {}, {}, {}, {}, {})", off, y, m, d, w.1 / 3600, w.1 / 60 % 60, w.1 % 60), format!("Single({:?})", dt), format!("{:?}", g));
                }
            }
        }
    }
    if !light || !in_nominal {
        acc.transitions += 1;
        let txt = guard(|| dt.format("%Y-%m-%dT%H:%M:%S%.9f").to_string());
        let sec_shown = if w.2 >= 1_000_000_000 { w.1 % 60 + 1 } else { w.1 % 60 };
        let ys = if (0..=9999).contains(&y) { format!("{:04}", y) } else { format!("{:+05}", y) };
        let exp = format!("{}-{:02}-{:02}T{:02}:{:02}:{:02}.{:09}", ys, m, d, w.1 / 3600, w.1 / 60 % 60, sec_shown, w.2 % 1_000_000_000);
        if txt != Ok(exp.clone()) {
            acc.violation("DateTime::format:wall-clock", format!("{:?}.format(\"%Y-%m-%dT%H:%M:%S%.9f\")", dt), exp, format!("{:?}", txt));
        }
    }
    if light {
        // one replacement and one step only
        judge(acc, "DateTime::with_day", &|| format!("{:?}.with_day(1)", dt), guard(|| dt.with_day(1)), rule(with_date(w, Some((y, m, 1))), off), off, RP_OK, RP_OOR);
        judge(acc, "DateTime::checked_add_days", &|| format!("{:?}.checked_add_days(Days::new(1))", dt), guard(|| dt.checked_add_days(Days::new(1))), rule(Some((w.0 + 1, w.1, w.2)), off), off, ST_OK, ST_NONE);
        judge(acc, "DateTime::checked_sub_days", &|| format!("{:?}.checked_sub_days(Days::new(1))", dt), guard(|| dt.checked_sub_days(Days::new(1))), rule(Some((w.0 - 1, w.1, w.2)), off), off, ST_OK, ST_NONE);
        return;
    }
    // ---- one step of every replacement -----------------------------------------------------
    for &a in args_u32 {
        let cases: [(&str, Result<Option<DateTime<FixedOffset>>, String>, Option<Rd>); 10] = [
            ("DateTime::with_month", guard(|| dt.with_month(a)), with_date(w, Some((y, a, d)))),
            ("DateTime::with_month0", guard(|| dt.with_month0(a)), if a < 12 { with_date(w, Some((y, a + 1, d))) } else { None }),
            ("DateTime::with_day", guard(|| dt.with_day(a)), with_date(w, Some((y, m, a)))),
            ("DateTime::with_day0", guard(|| dt.with_day0(a)), if a < 31 { with_date(w, Some((y, m, a + 1))) } else { None }),
            ("DateTime::with_ordinal", guard(|| dt.with_ordinal(a)), from_ordinal(y, a).and_then(|(mm, dd)| with_date(w, Some((y, mm, dd))))),
            ("DateTime::with_ordinal0", guard(|| dt.with_ordinal0(a)), if a < 366 { from_ordinal(y, a + 1).and_then(|(mm, dd)| with_date(w, Some((y, mm, dd)))) } else { None }),
            ("DateTime::with_hour", guard(|| dt.with_hour(a)), if a < 24 { Some((w.0, a * 3600 + w.1 % 3600, w.2)) } else { None }),
            ("DateTime::with_minute", guard(|| dt.with_minute(a)), if a < 60 { Some((w.0, w.1 / 3600 * 3600 + a * 60 + w.1 % 60, w.2)) } else { None }),
            ("DateTime::with_second", guard(|| dt.with_second(a)), if a < 60 { Some((w.0, w.1 / 60 * 60 + a, w.2)) } else { None }),
            ("DateTime::with_nanosecond", guard(|| dt.with_nanosecond(a)), if a < 2_000_000_000 { Some((w.0, w.1, a)) } else { None }),
        ];
        for (name, got, wr) in cases {
            let exists = wr.is_some();
            judge(acc, name, &|| format!("{:?}.{}({})  [utc {:?}, offset {}]", dt, name, a, ndt, off), got, rule(wr, off), off, RP_OK, if exists { RP_OOR } else { RP_NONE });
        }
    }
    for &yy in years_arg {
        let wr = if yy >= MIN_YEAR - 1 && yy <= MAX_YEAR + 1 { with_date(w, Some((yy, m, d))) } else { None };
        let exists = wr.is_some();
        judge(acc, "DateTime::with_year", &|| format!("{:?}.with_year({})  [utc {:?}, offset {}]", dt, yy, ndt, off), guard(|| dt.with_year(yy as i32)), rule(wr, off), off, RP_OK, if exists { RP_OOR } else { RP_NONE });
    }
    // with_time
    for &(s, n) in &[(0u32, 0u32), (82800, 0), (86399, 999_999_999), (86399, 1_999_999_999), (3600, 1)] {
        let t = mk_time(s, n);
        let got = guard(|| dt.with_time(t).single());
        let none_cls = WT_REF;
        judge(acc, "DateTime::with_time", &|| format!("{:?}.with_time({:?})  [utc {:?}, offset {}]", dt, t, ndt, off), got, rule(Some((w.0, s, n)), off), off, RP_OK, none_cls);
    }
    // stepping
    for &n in &[0u64, 1, 2, 7, 31, 365, 366, 146097, (MAX_DAY - MIN_DAY) as u64, (MAX_DAY - MIN_DAY) as u64 + 1, i32::MAX as u64, i32::MAX as u64 + 1, u64::MAX] {
        for neg in [false, true] {
            let tz = if neg { w.0 as i128 - n as i128 } else { w.0 as i128 + n as i128 };
            let wr = if n == 0 {
                Some(w)
            } else if tz >= MIN_DAY as i128 - 1 && tz <= MAX_DAY as i128 + 1 {
                Some((tz as i64, w.1, w.2))
            } else {
                None
            };
            let want = if n == 0 { Want::Value(w) } else { rule(wr, off) };
            let want = match (want, n) {
                (Want::Value(v), 0) if !in_nominal => Want::Either(v), // zero step on a headroom reading: either answer, value checked
                (x, _) => x,
            };
            let got = guard(|| if neg { dt.checked_sub_days(Days::new(n)) } else { dt.checked_add_days(Days::new(n)) });
            judge(acc, if neg { "DateTime::checked_sub_days" } else { "DateTime::checked_add_days" }, &|| format!("{:?}.{}(Days::new({}))  [utc {:?}, offset {}]", dt, if neg { "checked_sub_days" } else { "checked_add_days" }, n, ndt, off), got, want, off, ST_OK, ST_NONE);
        }
    }
    for &n in &[0u32, 1, 2, 11, 12, 13, 24, 4800, 12 * 262143, 12 * 524286, i32::MAX as u32, u32::MAX] {
        for neg in [false, true] {
            let ym = y as i128 * 12 + (m as i128 - 1) + if neg { -(n as i128) } else { n as i128 };
            let (ty, tm) = (ym.div_euclid(12), ym.rem_euclid(12) as u32 + 1);
            let wr = if ty >= MIN_YEAR as i128 - 1 && ty <= MAX_YEAR as i128 + 1 { with_date(w, Some((ty as i64, tm, d.min(days_in_month(ty as i64, tm))))) } else { None };
            let want = match rule(wr, off) {
                Want::Value(v) if !in_nominal => Want::Either(v),
                x => x,
            };
            let got = guard(|| if neg { dt.checked_sub_months(Months::new(n)) } else { dt.checked_add_months(Months::new(n)) });
            judge(acc, if neg { "DateTime::checked_sub_months" } else { "DateTime::checked_add_months" }, &|| format!("{:?}.{}(Months::new({}))  [utc {:?}, offset {}]", dt, if neg { "checked_sub_months" } else { "checked_add_months" }, n, ndt, off), got, want, off, ST_OK, ST_NONE);
        }
    }
}

/// Histories of length two on one thread over states that a hidden cache of "the last wall clock" could confuse: a
/// leap second and the instant one second later (equal nanosecond timestamps), the same instant at two offsets, the
/// same offset at two instants.
fn history_pairs(acc: &mut Acc, args_u32: &[u32], years_arg: &[i64]) {
    let z = days_from_civil(2016, 12, 31);
    let mut sts: Vec<(Rd, i32)> = vec![];
    for o in [0i32, 19_800, -3600, 30] {
        sts.push(((z, 86_399, 1_500_000_000), o));
        sts.push(((z + 1, 0, 500_000_000), o));
        sts.push(((z, 86_399, 500_000_000), o));
    }
    for &i in &pair_order(sts.len()) {
        state(acc, sts[i].0, sts[i].1, true, args_u32, years_arg);
    }
}

/// the offset range: east / west constructors accept exactly (-24h, 24h), readers return what was given
fn offset_constructors(acc: &mut Acc) {
    let mut os: Vec<i64> = (-90_000i64..=90_000).collect();
    os.extend(lat_i32().into_iter().map(|x| x as i64));
    for k in [1i64 << 16, 1 << 17, 1 << 24, 1 << 31, 1 << 32] {
        for v in [0i64, 1, 3600, 86_399, -3600] {
            os.push(k + v);
            os.push(-k + v);
        }
    }
    os.retain(|x| *x >= i32::MIN as i64 && *x <= i32::MAX as i64);
    os.sort();
    os.dedup();
    for &o in &os {
        let oi = o as i32;
        let ok = o > -86_400 && o < 86_400;
        acc.transitions += 2;
        let e = guard(|| FixedOffset::east_opt(oi));
        let w = guard(|| FixedOffset::west_opt(oi));
        let fine = match (&e, &w) {
            (Ok(Some(e)), Ok(Some(w))) => ok && e.local_minus_utc() == oi && e.utc_minus_local() == -oi && w.local_minus_utc() == -oi && w.utc_minus_local() == oi && Some(*w) == FixedOffset::east_opt(-oi) && (*e == *w) == (oi == 0),
            (Ok(None), Ok(None)) => !ok,
            _ => false,
        };
        if !fine {
            acc.violation("FixedOffset::east_opt / west_opt", format!("FixedOffset::east_opt({0}) / west_opt({0}) and their readers", o), if ok { format!("Some: local_minus_utc {} / {}", o, -o) } else { "None / None".to_string() }, format!("{:?} / {:?}", e, w));
        }
        if ok || o % 9973 == 0 {
            #[allow(deprecated)]
            let (de, dw) = (guard(|| FixedOffset::east(oi)).ok(), guard(|| FixedOffset::west(oi)).ok());
            acc.transitions += 1;
            if de != e.clone().ok().flatten() || dw != w.clone().ok().flatten() {
                acc.violation("FixedOffset::east / west (deprecated forms)", format!("FixedOffset::east({0}) / west({0})", o), format!("{:?} / {:?} (panic for None)", e, w), format!("{:?} / {:?}", de, dw));
            }
        }
    }
}

// ---- a zone with one skipped and one repeated hour: the generic code paths FixedOffset never takes (gfzone.rs) ----
/// One step of every field replacement and calendar step from states around the gap and the fold. The statement says
/// these act on the wall-clock reading: a result must show exactly the new wall clock and be one of its readings in the
/// zone; a wall clock with exactly one reading must be produced; a skipped one cannot be; a repeated one may be
/// refused or answered with either reading.
fn zone_with_gap_and_fold(acc: &mut Acc) {
    let tz = GAPFOLD_2021;
    let mut starts: Vec<i64> = vec![];
    for t in [GF_T1, GF_T2] {
        for h in -6i64..=6 {
            for d in [-1i64, 0, 1, 1799, 1800] {
                starts.push(t + h * 1800 + d);
            }
        }
        for days in [-31i64, -30, -7, -1, 1, 7, 28, 30, 31, 217, -217, 365, -365] {
            for d in [-3600i64, -1, 0, 1800, 3600, 5400] {
                starts.push(t + days * 86400 + d);
            }
        }
    }
    starts.sort();
    starts.dedup();
    for &u in &starts {
        for nano in [0u32, 999_999_999] {
            let ndt = DateTime::from_timestamp(u, nano).unwrap().naive_utc();
            let dt: DateTime<Gz> = tz.from_utc_datetime(&ndt);
            let off = tz.offset_at(u);
            let w = u + off as i64; // wall clock as seconds
            acc.states += 1;
            acc.transitions += 1;
            let wl = DateTime::from_timestamp(w, nano).unwrap().naive_utc();
            if dt.naive_local() != wl || dt.offset().off != off || dt.naive_utc() != ndt || (dt.hour(), dt.minute(), dt.second()) != ((w.rem_euclid(86400) / 3600) as u32, (w.rem_euclid(3600) / 60) as u32, w.rem_euclid(60) as u32) {
                acc.violation("DateTime<zone>:reading", format!("wall clock of {:?} in the gap/fold zone", ndt), format!("{:?} at {}", wl, off), format!("{:?} at {:?}", dt.naive_local(), dt.offset()));
                continue;
            }
            // elapsed-time arithmetic and zone conversion land on the exact instant *with the zone's offset there*
            for delta in [1i64, -1, 1800, -1800, 3600, -3600, 7200, -7200, 86_400, -86_400, 217 * 86_400, -217 * 86_400] {
                let td = chrono::TimeDelta::seconds(delta);
                let want = (u + delta, tz.offset_at(u + delta));
                acc.transitions += 3;
                let a = guard(|| dt.checked_add_signed(td).map(|x| (x.naive_utc().and_utc().timestamp(), x.offset().off)));
                let b = guard(|| {
                    let x = dt + td;
                    (x.naive_utc().and_utc().timestamp(), x.offset().off)
                });
                let c = guard(|| {
                    let x = Utc.timestamp_opt(u + delta, nano).unwrap().with_timezone(&tz);
                    (x.naive_utc().and_utc().timestamp(), x.offset().off)
                });
                let sd = std::time::Duration::from_secs(delta.unsigned_abs());
                let e = guard(|| {
                    let (mut x, mut y) = (dt, dt);
                    if delta >= 0 {
                        x += td;
                        y += sd;
                        (x, y, dt + sd)
                    } else {
                        x -= -td;
                        y -= sd;
                        (x, y, dt - sd)
                    }
                })
                .map(|(x, y, z)| [x, y, z].map(|v| (v.naive_utc().and_utc().timestamp(), v.offset().off)));
                acc.transitions += 3;
                if e != Ok([want, want, want]) {
                    acc.violation("DateTime<zone>:assign-and-std-Duration-forms", format!("[{:?} at offset {}] {} {} s through += / -= TimeDelta, += / -= std Duration, and the std Duration operator", wl, off, if delta >= 0 { "+" } else { "-" }, delta.abs()), format!("instant {} at the zone's offset {}", want.0, want.1), format!("{:?}", e));
                }
                if a != Ok(Some(want)) || b != Ok(want) || c != Ok(want) {
                    acc.violation("DateTime<zone>:elapsed-time-and-conversion", format!("[{:?} at offset {}] + {} s [checked_add_signed / operator] and the same instant converted from Utc", wl, off, delta), format!("instant {} at the zone's offset {}", want.0, want.1), format!("{:?} / {:?} / {:?}", a, b, c));
                }
            }
            let (wz, ws) = (w.div_euclid(86400), w.rem_euclid(86400) as u32);
            let (y, m, d) = civil_from_days(wz);
            let at = |z: i64, s: u32, n: u32| -> Option<(i64, u32)> { Some((z * 86400 + s as i64, n)) };
            let date = |yy: i64, mm: u32, dd: u32| -> Option<(i64, u32)> { if mm >= 1 && mm <= 12 && dd >= 1 && dd <= days_in_month(yy, mm) { at(days_from_civil(yy, mm, dd), ws, nano) } else { None } };
            let months = |k: i64| -> Option<(i64, u32)> {
                let ym = y * 12 + m as i64 - 1 + k;
                let (ty, tm) = (ym.div_euclid(12), ym.rem_euclid(12) as u32 + 1);
                date(ty, tm, d.min(days_in_month(ty, tm)))
            };
            let mut cases: Vec<(String, Result<Option<DateTime<Gz>>, String>, Option<(i64, u32)>)> = vec![];
            for h in 0..24u32 {
                cases.push((format!("with_hour({})", h), guard(|| dt.with_hour(h)), at(wz, h * 3600 + ws % 3600, nano)));
            }
            for x in [0u32, 29, 30, 59] {
                cases.push((format!("with_minute({})", x), guard(|| dt.with_minute(x)), at(wz, ws / 3600 * 3600 + x * 60 + ws % 60, nano)));
                cases.push((format!("with_second({})", x), guard(|| dt.with_second(x)), at(wz, ws / 60 * 60 + x, nano)));
            }
            cases.push(("with_nanosecond(5)".into(), guard(|| dt.with_nanosecond(5)), at(wz, ws, 5)));
            for x in [1u32, 27, 28, 29, 30, 31] {
                cases.push((format!("with_day({})", x), guard(|| dt.with_day(x)), date(y, m, x)));
                cases.push((format!("with_day0({})", x - 1), guard(|| dt.with_day0(x - 1)), date(y, m, x)));
            }
            for x in [2u32, 3, 4, 10, 11] {
                cases.push((format!("with_month({})", x), guard(|| dt.with_month(x)), date(y, x, d)));
            }
            for x in [86u32, 87, 88, 303, 304, 305] {
                cases.push((format!("with_ordinal({})", x), guard(|| dt.with_ordinal(x)), from_ordinal(y, x).and_then(|(mm, dd)| date(y, mm, dd))));
            }
            for yy in [2020i64, 2021, 2022] {
                cases.push((format!("with_year({})", yy), guard(|| dt.with_year(yy as i32)), date(yy, m, d)));
            }
            for (s2, n2) in [(3600u32, 0u32), (5400, 0), (7200, 0), (9000, 1), (10800, 0), (86399, 999_999_999)] {
                cases.push((format!("with_time({} s, {} ns)", s2, n2), guard(|| dt.with_time(mk_time(s2, n2)).single()), at(wz, s2, n2)));
            }
            for k in [0u64, 1, 2, 7, 30, 31, 217, 365] {
                cases.push((format!("checked_add_days({})", k), guard(|| dt.checked_add_days(Days::new(k))), at(wz + k as i64, ws, nano)));
                cases.push((format!("checked_sub_days({})", k), guard(|| dt.checked_sub_days(Days::new(k))), at(wz - k as i64, ws, nano)));
            }
            for k in [0u32, 1, 5, 7, 12] {
                cases.push((format!("checked_add_months({})", k), guard(|| dt.checked_add_months(Months::new(k))), months(k as i64)));
                cases.push((format!("checked_sub_months({})", k), guard(|| dt.checked_sub_months(Months::new(k))), months(-(k as i64))));
            }
            for (name, got, want) in cases {
                acc.transitions += 1;
                let got = match got {
                    Ok(g) => g,
                    Err(p) => {
                        acc.violation("DateTime<zone>:panic", format!("[{:?} at {}].{}", wl, off, name), "a value or None".into(), format!("panic: {}", p));
                        continue;
                    }
                };
                let readings = want.map(|(ws2, _)| tz.resolve(ws2)).unwrap_or_default();
                let shown = got.as_ref().map(|g| (g.naive_local().and_utc().timestamp(), g.naive_local().and_utc().timestamp_subsec_nanos(), g.naive_utc().and_utc().timestamp(), g.offset().off));
                let ok = match (&shown, want) {
                    (None, None) => true,
                    (None, Some(_)) => readings.len() != 1,
                    (Some(_), None) => false,
                    (Some((lw, ln, gu, go)), Some((ws2, n2))) => *lw == ws2 && *ln == n2 && readings.contains(&(*gu, *go)),
                };
                if !ok {
                    acc.violation(
                        &format!("DateTime<zone>::{}", name.split('(').next().unwrap()),
                        format!("[{:?} at offset {}] .{} in a zone with a skipped hour (2021-03-28 02:00-03:00) and a repeated hour (2021-10-31 02:00-03:00)", wl, off, name),
                        match want {
                            None => "None (no such date / time)".to_string(),
                            Some((ws2, n2)) => format!("wall clock {:?} .{:09}: {}", DateTime::from_timestamp(ws2, 0).unwrap().naive_utc(), n2, match readings.len() { 0 => "skipped, so None".to_string(), 1 => format!("its one reading at offset {}", readings[0].1), _ => "repeated: None or either reading".to_string() }),
                        },
                        format!("{:?}", got.map(|g| (g.naive_local(), g.offset().off))),
                    );
                } else {
                    match (want.is_some(), readings.len()) {
                        (true, 0) => acc.hit_nt(Z_GAP),
                        (true, 2) => acc.hit_nt(Z_FOLD),
                        (true, _) => acc.hit(Z_SINGLE),
                        _ => {}
                    }
                }
            }
        }
    }
}

fn pairs(acc: &mut Acc, a: Rd, oa: i32, others: &[(Rd, i32)]) {
    let da = FixedOffset::east_opt(oa).unwrap().from_utc_datetime(&mk_ndt(a.0, a.1, a.2));
    for &(b, ob) in others {
        let db = FixedOffset::east_opt(ob).unwrap().from_utc_datetime(&mk_ndt(b.0, b.1, b.2));
        let want = a.cmp(&b);
        acc.transitions += 2;
        if da.cmp(&db) != want || (da == db) != (a == b) || (da < db) != (a < b) || (da >= db) != (a >= b) {
            acc.violation("DateTime::cmp", format!("{:?}.cmp({:?})", da, db), format!("{:?}", want), format!("{:?}", da.cmp(&db)));
        }
        if a == b {
            if hash_of(&da) != hash_of(&db) {
                acc.violation("DateTime::hash", format!("hash of {:?} vs {:?}", da, db), "equal".into(), "different".into());
            }
            acc.hit(P_EQ);
        } else {
            acc.hit(P_ORD);
        }
    }
}

fn main() {
    install_panic_hook();
    let args = parse_args();
    let start = Instant::now();
    if let Err(e) = selftest() {
        machinery(&format!("RefCal self-test failed: {}", e));
    }
    let spec = Spec {
        property: "C04",
        classes: CLASSES,
        required: &["zone_gap_refused", "zone_fold_either", "zone_single", "built_from_utc", "built_from_local", "local_refused", "headroom_reading", "replace_ok", "replace_none", "replace_out_of_range", "headroom_either", "step_ok", "step_none", "with_time_refused", "pair_equal_instants", "pair_ordered", "hash_equal"],
        rule: "state = (UTC date-time, offset); UTC from boundary dates x boundary times (incl. leap) and every boundary second of the first and last two days of the range; offsets from the boundary subset (quick) / every whole minute on boundary dates and every second of (-24h, 24h) at the range ends (thorough); per state: both constructions and both readings, conversions, ==/cmp/Hash against the same instant elsewhere, all accessors and a formatted wall clock (also in the one-day headroom), then ONE step of every with_* (in-domain and alias arguments), with_time, +-Days and +-Months with the result judged on the wall clock; pairs of states for order and hash; a custom TimeZone with one skipped and one repeated hour: from states around both (and days / months away from them) one step of every replacement and calendar step, judged on the wall clock and on the zone's readings of it; non-trivial = refusal, headroom reading, out-of-range result",
        assumptions: &["a non-zero step / replacement whose target wall-clock date lies in the one-day headroom may answer either way; if it answers Some the value is checked", "date_naive()/naive_local() are documented to panic on headroom readings and are not called there"],
    };
    let tier = args.tier;
    let dates = b_dates(tier);
    let small = b_dates_small();
    let times_all = b_times(true);
    let times_small: Vec<(u32, u32)> = vec![(0, 0), (1, 1), (43200, 500_000_000), (82800, 0), (86399, 999_999_999), (86399, 1_500_000_000), (3599, 1_000_000_000)];
    let offs_small = b_offsets_small();
    let offs_min = b_offsets_minutes();
    let mut args_u32: Vec<u32> = vec![0, 1, 2, 11, 12, 13, 23, 24, 28, 29, 30, 31, 32, 58, 59, 60, 61, 365, 366, 367, 999_999_999, 1_000_000_000, 1_999_999_999, 2_000_000_000];
    args_u32.extend(aliases_u32(&[1, 12]).into_iter().step_by(3));
    args_u32.extend([u32::MAX, u32::MAX - 1, 1 << 31]);
    args_u32.sort();
    args_u32.dedup();
    let years_arg: Vec<i64> = vec![MIN_YEAR - 2, MIN_YEAR - 1, MIN_YEAR, MIN_YEAR + 1, -1, 0, 1, 1999, 2000, 2001, 2023, 2024, MAX_YEAR - 1, MAX_YEAR, MAX_YEAR + 1, MAX_YEAR + 2, i32::MAX as i64, i32::MIN as i64];
    // range-end instants: boundary seconds of the first and last two days
    let mut end_secs: Vec<i64> = vec![];
    for s in [0i64, 1, 59, 60, 3599, 3600, 43200, 86339, 86398, 86399, 86400, 86401, 90000, 129600, 172799] {
        end_secs.push(s);
    }
    let mut ends: Vec<Rd> = vec![];
    for &s in &end_secs {
        for n in [0u32, 999_999_999] {
            ends.push(shift((MIN_DAY, 0, n), s));
            ends.push(shift((MAX_DAY + 1, 0, n), -s - 1));
        }
    }
    let nd = dates.len() as u64;
    let ne = ends.len() as u64;
    let only = replay_unit(&args);
    let acc = explore_units(nd + ne + 1, CLASSES.len(), only, |u, acc| {
        if u < nd {
            let z = dates[u as usize];
            let is_small = small.binary_search(&z).is_ok();
            let near_end = z - MIN_DAY < 3 || MAX_DAY - z < 3;
            let ts: &[(u32, u32)] = if is_small || near_end { &times_all } else { &times_small };
            for &(s, n) in ts {
                for &o in &offs_small {
                    state(acc, (z, s, n), o, false, &args_u32, &years_arg);
                }
                if tier == Tier::Thorough && is_small && (n == 0 || n == 999_999_999) {
                    for &o in &offs_min {
                        state(acc, (z, s, n), o, true, &args_u32, &years_arg);
                    }
                }
            }
            acc.traces += 1;
            if u % 401 == 0 {
                acc.sample(|| format!("utc date {:?} x {} times x {} offsets: constructions, readings, conversions, accessors, one step of every with_*/with_time/Days/Months", mk_date(z), ts.len(), offs_small.len()));
            }
        } else if u < nd + ne {
            let e = ends[(u - nd) as usize];
            // full step set at whole-minute offsets, light set at every second (thorough) / every 61st second (quick)
            for &o in &offs_min {
                state(acc, e, o, false, &args_u32[..12], &years_arg);
            }
            let stride = if tier == Tier::Thorough { 1 } else { 61 };
            let mut o = -86399i32;
            while o <= 86399 {
                state(acc, e, o, true, &args_u32, &years_arg);
                o += stride;
            }
            acc.traces += 1;
            if (u - nd) % 13 == 0 {
                acc.sample(|| format!("range-end utc reading (day {}, sec {}, nano {}) x every whole-minute offset (all steps) and every {}-th second offset (light)", e.0, e.1, e.2, stride));
            }
        } else {
            // pairs
            let mut sts: Vec<(Rd, i32)> = vec![];
            for &z in &small {
                for &(s, n) in &times_small {
                    for &o in &[0, 3600, -86399, 86399] {
                        sts.push(((z, s, n), o));
                    }
                }
            }
            for (i, &(a, oa)) in sts.iter().enumerate() {
                pairs(acc, a, oa, &sts[i..]);
            }
            offset_constructors(acc);
            history_pairs(acc, &args_u32, &years_arg);
            zone_with_gap_and_fold(acc);
            range_end_safety(acc, Z_SINGLE);
            acc.traces += 1;
        }
    });
    let extra = Extra {
        bounds: json!({"utc_dates": dates.len(), "times": times_all.len(), "offsets_boundary": offs_small.len(), "offsets_whole_minutes": offs_min.len(), "range_end_instants": ends.len(), "every_second_offset_at_range_ends": tier == Tier::Thorough, "replacement_arguments": args_u32.len(), "depth": 1}),
        exhaustive: false,
        more: vec![],
    };
    finish(&spec, &args, start, acc, extra);
}
