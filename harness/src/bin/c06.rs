//! C06 — durations are exact signed nanosecond counts within a closed range.
//! Shapes P (lattice products) + H (depth-2 closure under the operations).
use chrono::TimeDelta;
use chrono_mc::core::*;
use chrono_mc::lattice::*;
use serde_json::json;
use std::collections::BTreeSet;
use std::time::{Duration, Instant};

const CLASSES: &[&str] = &["ctor_ok", "ctor_refused", "op_ok", "op_refused", "carry", "negative_subsec", "div_inexact", "std_refused", "operator_panics", "closure_value"];
const CT_OK: usize = 0;
const CT_REF: usize = 1;
const OP_OK: usize = 2;
const OP_REF: usize = 3;
const CARRY: usize = 4;
const NEGSUB: usize = 5;
const DIVINEX: usize = 6;
const STD_REF: usize = 7;
const OP_PANIC: usize = 8;
const CLOSURE: usize = 9;

fn in_range(ns: i128) -> bool {
    ns >= -MAX_DELTA && ns <= MAX_DELTA
}

/// Reference reading of the Display form: exact decimal seconds
fn parse_display(s: &str) -> Option<i128> {
    let (neg, rest) = match s.strip_prefix('-') {
        Some(r) => (true, r),
        None => (false, s),
    };
    let rest = rest.strip_prefix('P')?;
    if rest == "0D" {
        return if neg { None } else { Some(0) };
    }
    let rest = rest.strip_prefix('T')?.strip_suffix('S')?;
    let (ip, fp) = match rest.split_once('.') {
        Some((a, b)) => (a, b),
        None => (rest, ""),
    };
    if ip.is_empty() || !ip.bytes().all(|c| c.is_ascii_digit()) || !fp.bytes().all(|c| c.is_ascii_digit()) || fp.len() > 9 {
        return None;
    }
    if rest.contains('.') && (fp.is_empty() || fp.ends_with('0')) {
        return None; // no trailing zeros, no bare point
    }
    let secs: i128 = ip.parse().ok()?;
    let mut frac: i128 = if fp.is_empty() { 0 } else { fp.parse().ok()? };
    for _ in fp.len()..9 {
        frac *= 10;
    }
    let v = secs * NS + frac;
    Some(if neg { -v } else { v })
}

/// every observation on one value against its exact nanosecond count
fn observe(acc: &mut Acc, t: TimeDelta, ns: i128, how: &dyn Fn() -> String) {
    acc.states += 1;
    if !in_range(ns) {
        acc.violation("TimeDelta:value-out-of-range", how(), "a value within +-(2^63-1) ms".into(), format!("{:?} = {} ns", t, ns));
        return;
    }
    let mut bad = |acc: &mut Acc, what: &str, a: String, e: String| acc.violation(&format!("TimeDelta::{}", what), format!("{} of the value from {}", what, how()), e, a);
    macro_rules! acc_eq {
        ($what:expr, $a:expr, $e:expr) => {{
            acc.transitions += 1;
            let a = $a;
            let e = $e;
            if a != e {
                bad(acc, $what, format!("{:?}", a), format!("{:?}", e));
            }
        }};
    }
    acc_eq!("num_weeks", t.num_weeks() as i128, ns / (7 * DAY_NS));
    acc_eq!("num_days", t.num_days() as i128, ns / DAY_NS);
    acc_eq!("num_hours", t.num_hours() as i128, ns / (3600 * NS));
    acc_eq!("num_minutes", t.num_minutes() as i128, ns / (60 * NS));
    acc_eq!("num_seconds", t.num_seconds() as i128, ns / NS);
    acc_eq!("num_milliseconds", t.num_milliseconds() as i128, ns / 1_000_000);
    let us = ns / 1000;
    acc_eq!("num_microseconds", t.num_microseconds().map(|x| x as i128), if us >= i64::MIN as i128 && us <= i64::MAX as i128 { Some(us) } else { None });
    acc_eq!("num_nanoseconds", t.num_nanoseconds().map(|x| x as i128), if ns >= i64::MIN as i128 && ns <= i64::MAX as i128 { Some(ns) } else { None });
    acc_eq!("subsec_nanos", t.subsec_nanos() as i128, ns % NS);
    acc_eq!("subsec_micros", t.subsec_micros() as i128, (ns % NS) / 1000);
    acc_eq!("subsec_millis", t.subsec_millis() as i128, (ns % NS) / 1_000_000);
    acc_eq!("is_zero", t.is_zero(), ns == 0);
    acc_eq!("neg", delta_parts(-t), -ns);
    acc_eq!("abs", delta_parts(t.abs()), ns.abs());
    acc_eq!("Display", parse_display(&t.to_string()), Some(ns));
    acc_eq!("to_std", t.to_std().ok().map(|d| d.as_nanos() as i128), if ns >= 0 { Some(ns) } else { None });
    acc_eq!("in-range", t >= TimeDelta::MIN && t <= TimeDelta::MAX, true);
    {
        // floating-point views: two roundings at most away from the exact quotient
        let want = ns as f64 / 1e9;
        let tol = (want.abs() + 1.0) * 2f64.powi(-51); // the value is floor-seconds + fraction: errors scale with |seconds| + 1
        acc_eq!("as_seconds_f64", (t.as_seconds_f64() - want).abs() <= tol, true);
        let want32 = want as f32;
        let tol32 = (want32.abs() + 1.0) * 2f32.powi(-22);
        acc_eq!("as_seconds_f32", (t.as_seconds_f32() - want32).abs() <= tol32, true);
    }
    if ns < 0 && ns % NS != 0 {
        acc.hit_nt(NEGSUB);
    }
    if ns < 0 {
        acc.hit(STD_REF);
    }
}

/// exact ns of a returned value, read through the *fields' equality* with a freshly built value
fn delta_parts(t: TimeDelta) -> i128 {
    delta_ns(t)
}

fn expect(acc: &mut Acc, key: &str, call: &dyn Fn() -> String, got: Option<TimeDelta>, want: Option<i128>) -> Option<TimeDelta> {
    acc.transitions += 1;
    match (got, want) {
        (Some(t), Some(ns)) => {
            if t != mk_delta(ns) || delta_ns(t) != ns {
                acc.violation(key, call(), format!("Some({} ns)", ns), format!("Some({:?}) = {} ns", t, delta_ns(t)));
                None
            } else {
                acc.hit(OP_OK);
                Some(t)
            }
        }
        (None, None) => {
            acc.hit_nt(OP_REF);
            None
        }
        (Some(t), None) => {
            acc.violation(&format!("{}:out-of-range-value", key), call(), "None (result outside +-(2^63-1) ms)".into(), format!("Some({:?}) = {} ns", t, delta_ns(t)));
            None
        }
        (None, Some(ns)) => {
            acc.violation(&format!("{}:refuses-exact", key), call(), format!("Some({} ns)", ns), "None".into());
            None
        }
    }
}

fn constructors(acc: &mut Acc) {
    let mut secs: Vec<i64> = lat_i64();
    let maxs = (MAX_DELTA / NS) as i64;
    secs.extend([59, -59, 60, -60, 86399, -86399, 86400, -86400, maxs - 1, maxs, maxs + 1, -maxs - 1, -maxs, -maxs + 1, -maxs - 2]);
    secs.sort();
    secs.dedup();
    let nanos: [u32; 15] = [0, 1, 999_999, 1_000_000, 192_999_999, 193_000_000, 193_000_001, 806_999_999, 807_000_000, 807_000_001, 999_999_999, 1_000_000_000, 1_000_000_001, u32::MAX - 1, u32::MAX];
    for &s in &secs {
        for &n in &nanos {
            let ns = s as i128 * NS + n as i128;
            let want = if n < 1_000_000_000 && in_range(ns) { Some(ns) } else { None };
            let got = TimeDelta::new(s, n);
            acc.transitions += 1;
            match (got, want) {
                (Some(t), Some(w)) => {
                    acc.hit(CT_OK);
                    if delta_ns(t) != w {
                        acc.violation("TimeDelta::new:value", format!("TimeDelta::new({}, {})", s, n), format!("{} ns", w), format!("{} ns", delta_ns(t)));
                    }
                    observe(acc, t, w, &|| format!("TimeDelta::new({}, {})", s, n));
                }
                (None, None) => acc.hit_nt(CT_REF),
                (Some(t), None) => acc.violation("TimeDelta::new:accepts-invalid", format!("TimeDelta::new({}, {})", s, n), "None".into(), format!("Some({:?})", t)),
                (None, Some(_)) => acc.violation("TimeDelta::new:refuses-valid", format!("TimeDelta::new({}, {})", s, n), "Some".into(), "None".into()),
            }
        }
    }
    // unit constructors
    type Ctor = (&'static str, i128, fn(i64) -> Option<TimeDelta>, fn(i64) -> TimeDelta);
    let units: [Ctor; 8] = [
        ("weeks", 7 * DAY_NS, TimeDelta::try_weeks, TimeDelta::weeks),
        ("days", DAY_NS, TimeDelta::try_days, TimeDelta::days),
        ("hours", 3600 * NS, TimeDelta::try_hours, TimeDelta::hours),
        ("minutes", 60 * NS, TimeDelta::try_minutes, TimeDelta::minutes),
        ("seconds", NS, TimeDelta::try_seconds, TimeDelta::seconds),
        ("milliseconds", 1_000_000, TimeDelta::try_milliseconds, TimeDelta::milliseconds),
        ("microseconds", 1000, |x| Some(TimeDelta::microseconds(x)), TimeDelta::microseconds),
        ("nanoseconds", 1, |x| Some(TimeDelta::nanoseconds(x)), TimeDelta::nanoseconds),
    ];
    for (name, k, tryf, panf) in units {
        let mut xs = lat_i64();
        let lim = (MAX_DELTA / k).min(i64::MAX as i128) as i64;
        for d in -2i64..=2 {
            xs.push(lim.saturating_add(d));
            xs.push((-lim).saturating_add(d));
            xs.push((i64::MAX / (k.min(i64::MAX as i128) as i64).max(1)).saturating_add(d));
            xs.push((i64::MIN / (k.min(i64::MAX as i128) as i64).max(1)).saturating_add(d));
        }
        xs.sort();
        xs.dedup();
        for &x in &xs {
            let ns = x as i128 * k;
            let want = if in_range(ns) { Some(ns) } else { None };
            let got = tryf(x);
            acc.transitions += 1;
            match (got, want) {
                (Some(t), Some(w)) => {
                    acc.hit(CT_OK);
                    if t != mk_delta(w) {
                        acc.violation(&format!("TimeDelta::try_{}:value", name), format!("TimeDelta::try_{}({})", name, x), format!("{} ns", w), format!("{:?} = {} ns", t, delta_ns(t)));
                    } else {
                        observe(acc, t, w, &|| format!("TimeDelta::try_{}({})", name, x));
                    }
                }
                (None, None) => acc.hit_nt(CT_REF),
                (Some(t), None) => acc.violation(&format!("TimeDelta::try_{}:accepts-out-of-range", name), format!("TimeDelta::try_{}({})", name, x), "None".into(), format!("Some({:?})", t)),
                (None, Some(_)) => acc.violation(&format!("TimeDelta::try_{}:refuses-valid", name), format!("TimeDelta::try_{}({})", name, x), "Some".into(), "None".into()),
            }
            // the panicking form agrees with the checked form whenever that succeeds, panics otherwise
            let p = guard(|| panf(x));
            acc.transitions += 1;
            match (p, want) {
                (Ok(t), Some(w)) if t == mk_delta(w) => {}
                (Err(_), None) => acc.hit(OP_PANIC),
                (Ok(t), w) => acc.violation(&format!("TimeDelta::{}:value", name), format!("TimeDelta::{}({})", name, x), format!("{:?}", w), format!("{:?}", t)),
                (Err(p), Some(_)) => acc.violation(&format!("TimeDelta::{}:panics-on-valid", name), format!("TimeDelta::{}({})", name, x), "a value".into(), format!("panic: {}", p)),
            }
        }
    }
    // from_std / to_std
    for &s in &lat_u64() {
        for n in [0u32, 1, 806_999_999, 807_000_000, 807_000_001, 999_999_999] {
            let d = Duration::new(s, n);
            let ns = s as i128 * NS + n as i128;
            let want = if in_range(ns) { Some(ns) } else { None };
            let got = TimeDelta::from_std(d).ok();
            acc.transitions += 1;
            match (got, want) {
                (Some(t), Some(w)) if t == mk_delta(w) => {
                    acc.transitions += 1;
                    if t.to_std().ok() != Some(d) {
                        acc.violation("TimeDelta::to_std:roundtrip", format!("from_std({:?}).to_std()", d), format!("{:?}", d), format!("{:?}", t.to_std()));
                    }
                }
                (None, None) => acc.hit_nt(STD_REF),
                (g, w) => acc.violation("TimeDelta::from_std", format!("TimeDelta::from_std({:?})", d), format!("{:?} ns", w), format!("{:?}", g)),
            }
        }
    }
}

fn value_lattice() -> Vec<i128> {
    let mut v: Vec<i128> = b_durs();
    for s in [0i128, 1, -1, 59, -60, 86399, -86400, MAX_DELTA / NS, -(MAX_DELTA / NS), i32::MAX as i128, i32::MIN as i128, 1 << 40, -(1 << 40), (MAX_DELTA / NS) / 2, (MAX_DELTA / NS) / 3] {
        for n in [0i128, 1, 500_000_000, 807_000_000, 999_999_999] {
            v.push(s * NS + n);
            v.push(s * NS - n);
        }
    }
    v.extend([MAX_DELTA, -MAX_DELTA, MAX_DELTA - 1, -MAX_DELTA + 1, MAX_DELTA / 2, MAX_DELTA / 2 + 1, -(MAX_DELTA / 2), -(MAX_DELTA / 2) - 1]);
    v.retain(|x| in_range(*x));
    v.sort();
    v.dedup();
    v
}

fn mults() -> Vec<i32> {
    let mut v = lat_i32();
    v.extend([7, -7, 10, 60, 1000, -1000, 86400, 1_000_000_007]);
    v.sort();
    v.dedup();
    v
}

fn binary_ops(acc: &mut Acc, a: i128, bs: &[i128], ks: &[i32], out: &mut BTreeSet<i128>) {
    let ta = mk_delta(a);
    for &b in bs {
        let tb = mk_delta(b);
        let s = a + b;
        let want = if in_range(s) { Some(s) } else { None };
        if let Some(_) = expect(acc, "TimeDelta::checked_add", &|| format!("TimeDelta({} ns).checked_add(TimeDelta({} ns))", a, b), ta.checked_add(&tb), want) {
            out.insert(s);
            if (a.rem_euclid(NS) + b.rem_euclid(NS)) >= NS {
                acc.hit_nt(CARRY);
            }
        }
        let d = a - b;
        let want = if in_range(d) { Some(d) } else { None };
        if let Some(_) = expect(acc, "TimeDelta::checked_sub", &|| format!("TimeDelta({} ns).checked_sub(TimeDelta({} ns))", a, b), ta.checked_sub(&tb), want) {
            out.insert(d);
            if a.rem_euclid(NS) < b.rem_euclid(NS) {
                acc.hit_nt(CARRY);
            }
        }
        // operators agree with the checked forms, panic otherwise (documented)
        let r = guard(|| ta + tb);
        acc.transitions += 1;
        match (r, in_range(s)) {
            (Ok(t), true) if delta_ns(t) == s => {}
            (Err(_), false) => acc.hit(OP_PANIC),
            (r, _) => acc.violation("TimeDelta::add-operator", format!("TimeDelta({} ns) + TimeDelta({} ns)", a, b), if in_range(s) { format!("{} ns", s) } else { "panic (documented)".into() }, format!("{:?}", r)),
        }
        let r = guard(|| ta - tb);
        acc.transitions += 1;
        match (r, in_range(d)) {
            (Ok(t), true) if delta_ns(t) == d => {}
            (Err(_), false) => acc.hit(OP_PANIC),
            (r, _) => acc.violation("TimeDelta::sub-operator", format!("TimeDelta({} ns) - TimeDelta({} ns)", a, b), if in_range(d) { format!("{} ns", d) } else { "panic (documented)".into() }, format!("{:?}", r)),
        }
        // assign forms
        let r = guard(|| {
            let mut x = ta;
            x += tb;
            x
        });
        let r2 = guard(|| {
            let mut x = ta;
            x -= tb;
            x
        });
        acc.transitions += 2;
        if r.as_ref().ok().map(|t| delta_ns(*t)) != (if in_range(s) { Some(s) } else { None }) || r2.as_ref().ok().map(|t| delta_ns(*t)) != (if in_range(d) { Some(d) } else { None }) {
            acc.violation("TimeDelta::assign-operators", format!("x = TimeDelta({} ns); x += / -= TimeDelta({} ns)", a, b), format!("{} / {} ns (panic when out of range)", s, d), format!("{:?} / {:?}", r, r2));
        }
        if in_range(s) {
            acc.transitions += 2;
            let s1: TimeDelta = [ta, tb].iter().sum();
            let s2: TimeDelta = vec![tb, ta, TimeDelta::zero()].into_iter().sum();
            if delta_ns(s1) != s || s2 != s1 {
                acc.violation("TimeDelta::sum", format!("[TimeDelta({} ns), TimeDelta({} ns)].iter().sum()", a, b), format!("{} ns", s), format!("{:?} / {:?}", s1, s2));
            }
        }
        acc.transitions += 1;
        if ta.cmp(&tb) != a.cmp(&b) || (ta == tb) != (a == b) || (ta < tb) != (a < b) {
            acc.violation("TimeDelta::cmp", format!("TimeDelta({} ns).cmp(TimeDelta({} ns))", a, b), format!("{:?}", a.cmp(&b)), format!("{:?}", ta.cmp(&tb)));
        }
    }
    for &k in ks {
        let p = a * k as i128;
        let want = if in_range(p) { Some(p) } else { None };
        if let Some(_) = expect(acc, "TimeDelta::checked_mul", &|| format!("TimeDelta({} ns).checked_mul({})", a, k), ta.checked_mul(k), want) {
            out.insert(p);
        }
        let r = guard(|| ta * k);
        acc.transitions += 1;
        match (r, in_range(p)) {
            (Ok(t), true) if delta_ns(t) == p => {}
            (Err(_), false) => acc.hit(OP_PANIC),
            (r, _) => acc.violation("TimeDelta::mul-operator", format!("TimeDelta({} ns) * {}", a, k), if in_range(p) { format!("{} ns", p) } else { "panic (documented)".into() }, format!("{:?}", r)),
        }
        let r = guard(|| ta / k);
        acc.transitions += 1;
        match (&r, ta.checked_div(k)) {
            (Ok(t), Some(q)) if *t == q => {}
            (Err(_), None) => acc.hit(OP_PANIC),
            (r, c) => acc.violation("TimeDelta::div-operator", format!("TimeDelta({} ns) / {}", a, k), format!("{:?}", c), format!("{:?}", r)),
        }
        let got = ta.checked_div(k);
        acc.transitions += 1;
        if k == 0 {
            if got.is_some() {
                acc.violation("TimeDelta::checked_div:by-zero", format!("TimeDelta({} ns).checked_div(0)", a), "None".into(), format!("{:?}", got));
            } else {
                acc.hit_nt(OP_REF);
            }
        } else {
            match got {
                None => acc.violation("TimeDelta::checked_div:refuses", format!("TimeDelta({} ns).checked_div({})", a, k), "Some".into(), "None".into()),
                Some(q) => {
                    let qn = delta_ns(q);
                    // |q*k - a| < 2*|k|  <=>  |q - a/k| < 2 ns
                    let err = (qn * k as i128 - a).abs();
                    if !in_range(qn) || err >= 2 * (k as i128).abs() {
                        acc.violation("TimeDelta::checked_div:inexact", format!("TimeDelta({} ns).checked_div({})", a, k), format!("within 2 ns of {}", a / k as i128), format!("{} ns", qn));
                    } else {
                        out.insert(qn);
                        if a % k as i128 != 0 {
                            acc.hit_nt(DIVINEX);
                        }
                    }
                }
            }
        }
    }
}

/// Sum over every sequence of up to five durations from a small alphabet whose sub-second parts carry (up to four
/// whole seconds of carry in one sum), by value and by reference: the exact total whenever every partial sum is in range
/// (Sum is a fold of `+`, so an out-of-range partial sum may panic)
fn sum_sequences(acc: &mut Acc) {
    const S: i128 = 1_000_000_000;
    let max_ns: i128 = (i64::MAX as i128) * 1_000_000;
    let alpha: [i128; 10] = [0, 999_999_999, 3 * S + 880_000_250, 41 * S + 655_500_000, 11_318_400 * S + 712_000_000, -1, -999_999_999, -(7 * S) - 500_000_000, max_ns, -max_ns];
    let n = alpha.len();
    let mut idx = vec![0usize; 0];
    for len in 0..=5usize {
        idx.clear();
        idx.resize(len, 0);
        loop {
            let seq: Vec<i128> = idx.iter().map(|&i| alpha[i]).collect();
            let mut partial_ok = true;
            let mut t = 0i128;
            for v in &seq {
                t += v;
                if !in_range(t) {
                    partial_ok = false;
                }
            }
            let ds: Vec<TimeDelta> = seq.iter().map(|&v| mk_delta(v)).collect();
            let r1 = guard(|| ds.iter().sum::<TimeDelta>());
            let r2 = guard(|| ds.clone().into_iter().sum::<TimeDelta>());
            acc.transitions += 2;
            for (form, r) in [("iter().sum()", &r1), ("into_iter().sum()", &r2)] {
                match r {
                    Ok(d) if in_range(t) && delta_ns(*d) == t => acc.hit(OP_OK),
                    Err(_) if !partial_ok => acc.hit(OP_PANIC),
                    r => acc.violation("TimeDelta::sum-sequence", format!("{:?} (ns) as TimeDeltas .{}", seq, form), if partial_ok { format!("{} ns", t) } else { "the exact total or a panic at an out-of-range partial sum".into() }, format!("{:?}", r)),
                }
            }
            // next sequence
            let mut k = len;
            loop {
                if k == 0 {
                    break;
                }
                k -= 1;
                idx[k] += 1;
                if idx[k] < n {
                    break;
                }
                idx[k] = 0;
                if k == 0 {
                    k = usize::MAX;
                    break;
                }
            }
            if len == 0 || k == usize::MAX {
                break;
            }
        }
    }
    // many equal terms: the counts at which a narrow counter or accumulator would wrap
    for &x in &[1i128, 999_999_999, -1, -999_999_999, S + 500_000_000] {
        for &n in &[254usize, 255, 256, 257, 65_535, 65_536, 65_537, 100_000] {
            let ds = vec![mk_delta(x); n];
            let want = x * n as i128;
            acc.transitions += 2;
            let r1 = guard(|| ds.iter().sum::<TimeDelta>());
            let r2 = guard(|| ds.clone().into_iter().sum::<TimeDelta>());
            if r1.as_ref().ok().map(|d| delta_ns(*d)) != Some(want) || r2.as_ref().ok().map(|d| delta_ns(*d)) != Some(want) {
                acc.violation("TimeDelta::sum-many", format!("sum of {} x TimeDelta({} ns)", n, x), format!("{} ns", want), format!("{:?} / {:?}", r1, r2));
            } else {
                acc.hit(OP_OK);
            }
        }
    }
    acc.traces += 1;
}

fn main() {
    install_panic_hook();
    let args = parse_args();
    let start = Instant::now();
    let spec = Spec {
        property: "C06",
        classes: CLASSES,
        required: &["ctor_ok", "ctor_refused", "op_ok", "op_refused", "carry", "negative_subsec", "div_inexact", "std_refused", "operator_panics", "closure_value"],
        rule: "TimeDelta::new on (seconds lattice x nanosecond lattice); every unit constructor (try_ and panicking form) on the i64 lattice plus +-limit/factor neighbours; from_std/to_std on the u64 lattice; all pairs of a valid value lattice for checked_add/checked_sub/+/-/cmp, x every i32 lattice multiplier/divisor; every returned value observed through all accessors, neg, abs, Display (parsed back by a reference reader) against its exact i128 nanosecond count; then the same from every value reached at depth 1 (closure to depth 2, thorough: all of them, quick: every 2nd); Sum over every sequence of up to five durations of a 10-value alphabet (large fractions, both signs, both range ends) by value and by reference, and over 2^8 / 2^16 +- 1 equal terms; non-trivial = refusal, sub-second carry, negative sub-second part, inexact division, operator panic",
        assumptions: &["float accessors (as_seconds_f32/f64) are not judged", "values between lattice points rely on uniformity of i128-style carry arithmetic between the carries that the lattice brackets"],
    };
    let vals = value_lattice();
    let ks = mults();
    let only = replay_unit(&args);
    let tier = args.tier;
    // unit 0: constructors; units 1..=n: one lattice value as left operand (depth 1), collecting new values
    let n = vals.len() as u64;
    let depth1: std::sync::Mutex<BTreeSet<i128>> = std::sync::Mutex::new(BTreeSet::new());
    let mut acc = explore_units(n + 1, CLASSES.len(), only, |u, acc| {
        if u == 0 {
            constructors(acc);
            sum_sequences(acc);
            return;
        }
        let a = vals[(u - 1) as usize];
        let mut out = BTreeSet::new();
        observe(acc, mk_delta(a), a, &|| format!("TimeDelta of {} ns", a));
        binary_ops(acc, a, &vals, &ks, &mut out);
        acc.traces += 1;
        if u % 37 == 0 {
            acc.sample(|| format!("left operand {} ns x {} right operands x {} multipliers/divisors -> {} distinct results", a, vals.len(), ks.len(), out.len()));
        }
        depth1.lock().unwrap().extend(out);
    });
    // depth 2: values reached at depth 1 that are not lattice members
    let mut new_vals: Vec<i128> = depth1.into_inner().unwrap().into_iter().filter(|x| vals.binary_search(x).is_err()).collect();
    new_vals.sort();
    let total_new = new_vals.len();
    if tier == Tier::Quick {
        new_vals = new_vals.into_iter().step_by(2).collect();
    }
    if only.is_none() {
        let small_ks: Vec<i32> = vec![0, 1, -1, 2, -2, 3, 7, 1000, i32::MAX, i32::MIN];
        let acc2 = explore_units(new_vals.len() as u64, CLASSES.len(), None, |u, acc| {
            let a = new_vals[u as usize];
            let mut out = BTreeSet::new();
            observe(acc, mk_delta(a), a, &|| format!("TimeDelta of {} ns (reached at depth 1)", a));
            binary_ops(acc, a, &vals, &small_ks, &mut out);
            acc.hit(CLOSURE);
            acc.traces += 1;
        });
        acc.merge(acc2);
    }
    let extra = Extra {
        bounds: json!({"value_lattice": vals.len(), "multipliers": ks.len(), "depth1_new_values": total_new, "depth2_left_operands_used": new_vals.len(), "depth": 2}),
        exhaustive: false,
        more: vec![],
    };
    finish(&spec, &args, start, acc, extra);
}
