//! C08 — month stepping, field replacement and week helpers follow calendar rules. Shapes S + P.
use chrono::{FixedOffset, TimeZone, DateTime, Datelike, Month, Months, NaiveDate, Timelike, Utc, Weekday};
use chrono_mc::core::*;
use chrono_mc::lattice::*;
use chrono_mc::refcal::*;
use num_traits::FromPrimitive;
use serde_json::json;
use std::time::Instant;

const CLASSES: &[&str] = &["month_step_ok", "month_clamped", "month_step_refused", "replace_ok", "replace_nonexistent", "replace_alias_rejected", "week_ok", "week_end_out_of_range", "nth_weekday_ok", "nth_weekday_none", "years_since_some", "years_since_none", "feb29_with_year", "datetime_keeps_time"];
const MS_OK: usize = 0;
const MS_CLAMP: usize = 1;
const MS_REF: usize = 2;
const RP_OK: usize = 3;
const RP_NE: usize = 4;
const RP_ALIAS: usize = 5;
const WK_OK: usize = 6;
const WK_OOR: usize = 7;
const NTH_OK: usize = 8;
const NTH_NONE: usize = 9;
const YS_SOME: usize = 10;
const YS_NONE: usize = 11;
const FEB29: usize = 12;
const DT_TIME: usize = 13;

const WD: [Weekday; 7] = [Weekday::Mon, Weekday::Tue, Weekday::Wed, Weekday::Thu, Weekday::Fri, Weekday::Sat, Weekday::Sun];

fn year_ok(y: i128) -> bool {
    y >= MIN_YEAR as i128 && y <= MAX_YEAR as i128
}

fn ymd(d: NaiveDate) -> (i64, u32, u32) {
    (d.year() as i64, d.month(), d.day())
}

fn expect_date(acc: &mut Acc, key: &str, call: &dyn Fn() -> String, got: Option<NaiveDate>, want: Option<(i64, u32, u32)>, ok_cls: usize, none_cls: usize) {
    acc.transitions += 1;
    match (got, want) {
        (Some(g), Some(w)) if ymd(g) == w => acc.hit(ok_cls),
        (None, None) => acc.hit_nt(none_cls),
        (g, w) => acc.violation(key, call(), format!("{:?}", w), format!("{:?}", g)),
    }
}

fn month_steps(acc: &mut Acc, d: NaiveDate, y: i64, m: u32, day: u32, ns: &[u32]) {
    for &n in ns {
        for neg in [false, true] {
            let ym = y as i128 * 12 + (m as i128 - 1) + if neg { -(n as i128) } else { n as i128 };
            let ty = ym.div_euclid(12);
            let tm = ym.rem_euclid(12) as u32 + 1;
            let want = if year_ok(ty) {
                let td = day.min(days_in_month(ty as i64, tm));
                Some((ty as i64, tm, td))
            } else {
                None
            };
            let got = if neg { d.checked_sub_months(Months::new(n)) } else { d.checked_add_months(Months::new(n)) };
            acc.transitions += 1;
            match (got, want) {
                (Some(g), Some(w)) if ymd(g) == w => {
                    if w.2 != day {
                        acc.hit_nt(MS_CLAMP)
                    } else {
                        acc.hit(MS_OK)
                    }
                }
                (None, None) => acc.hit_nt(MS_REF),
                (g, w) => acc.violation("NaiveDate::checked_add_months", format!("NaiveDate({:?}).{}(Months::new({}))", d, if neg { "checked_sub_months" } else { "checked_add_months" }, n), format!("{:?}", w), format!("{:?}", g)),
            }
            // sibling forms: the operators (panic where the checked form refuses), and the same step on a
            // NaiveDateTime and a DateTime<FixedOffset> carrying this date (time and offset kept)
            if got.is_some() || day == 1 {
                acc.transitions += 3;
                let op = guard(|| if neg { d - Months::new(n) } else { d + Months::new(n) }).ok();
                let t = d.and_time(mk_time(86_399 - (day * 1000 + m) % 86_399, 999_999_999));
                let nd = guard(|| if neg { t - Months::new(n) } else { t + Months::new(n) }).ok();
                let ndc = if neg { t.checked_sub_months(Months::new(n)) } else { t.checked_add_months(Months::new(n)) };
                let fo = FixedOffset::east_opt(if m % 2 == 0 { 3600 } else { -3600 }).unwrap();
                let zdt = fo.from_local_datetime(&t).single();
                let zd = zdt.and_then(|x| if neg { x.checked_sub_months(Months::new(n)) } else { x.checked_add_months(Months::new(n)) });
                let wantdt = got.map(|g| g.and_time(t.time()));
                if op != got || nd != wantdt || ndc != wantdt {
                    acc.violation("Months:operator / NaiveDateTime forms", format!("NaiveDate({:?}) {} Months::new({}) and NaiveDateTime({:?}) likewise [operator, operator, checked]", d, if neg { "-" } else { "+" }, n, t), format!("{:?} / {:?}", got, wantdt), format!("{:?} / {:?} / {:?}", op, nd, ndc));
                }
                if let (Some(_), Some(w)) = (zdt, wantdt) {
                    // judged only where the wall clock and its instant are both comfortably inside the range
                    if (MIN_YEAR + 1..MAX_YEAR).contains(&(w.year() as i64)) && zd.map(|x| (x.naive_local(), x.offset().local_minus_utc())) != Some((w, fo.local_minus_utc())) {
                        acc.violation("DateTime::checked_add_months", format!("DateTime({:?} at {}).{}(Months::new({}))", t, fo, if neg { "checked_sub_months" } else { "checked_add_months" }, n), format!("wall clock {:?} at the same offset", w), format!("{:?}", zd));
                    }
                }
            }
        }
    }
}

fn replacements(acc: &mut Acc, d: NaiveDate, y: i64, m: u32, day: u32, full: bool, al: &[u32]) {
    let dim = |mm: u32| days_in_month(y, mm);
    let small_days: &[u32] = &[0, 1, 2, 27, 28, 29, 30, 31, 32];
    let all_days: Vec<u32> = (0..=33).collect();
    let days: &[u32] = if full { &all_days } else { small_days };
    for &x in days.iter().chain(al.iter()) {
        let cls = if x > 64 { RP_ALIAS } else { RP_NE };
        let want = if x >= 1 && x <= dim(m) { Some((y, m, x)) } else { None };
        expect_date(acc, "NaiveDate::with_day", &|| format!("NaiveDate({:?}).with_day({})", d, x), d.with_day(x), want, RP_OK, cls);
        let want0 = if (x as u64 + 1) <= dim(m) as u64 { Some((y, m, x + 1)) } else { None };
        expect_date(acc, "NaiveDate::with_day0", &|| format!("NaiveDate({:?}).with_day0({})", d, x), d.with_day0(x), want0, RP_OK, cls);
    }
    for x in (0..=13u32).chain(al.iter().cloned()) {
        let cls = if x > 64 { RP_ALIAS } else { RP_NE };
        let want = if x >= 1 && x <= 12 && day <= dim(x) { Some((y, x, day)) } else { None };
        expect_date(acc, "NaiveDate::with_month", &|| format!("NaiveDate({:?}).with_month({})", d, x), d.with_month(x), want, RP_OK, cls);
        let want0 = if x <= 11 && day <= dim(x + 1) { Some((y, x + 1, day)) } else { None };
        expect_date(acc, "NaiveDate::with_month0", &|| format!("NaiveDate({:?}).with_month0({})", d, x), d.with_month0(x), want0, RP_OK, cls);
    }
    let small_ord: &[u32] = &[0, 1, 31, 32, 59, 60, 61, 365, 366, 367];
    let all_ord: Vec<u32> = (0..=368).collect();
    let ords: &[u32] = if full { &all_ord } else { small_ord };
    for &x in ords.iter().chain(al.iter()) {
        let cls = if x > 400 { RP_ALIAS } else { RP_NE };
        let want = from_ordinal(y, x).map(|(mm, dd)| (y, mm, dd));
        expect_date(acc, "NaiveDate::with_ordinal", &|| format!("NaiveDate({:?}).with_ordinal({})", d, x), d.with_ordinal(x), want, RP_OK, cls);
        let want0 = if x < u32::MAX { from_ordinal(y, x + 1).map(|(mm, dd)| (y, mm, dd)) } else { None };
        expect_date(acc, "NaiveDate::with_ordinal0", &|| format!("NaiveDate({:?}).with_ordinal0({})", d, x), d.with_ordinal0(x), want0, RP_OK, cls);
    }
    // small calendar facts
    acc.transitions += 3;
    if d.quarter() != (m - 1) / 3 + 1 {
        acc.violation("Datelike::quarter", format!("NaiveDate({:?}).quarter()", d), format!("{}", (m - 1) / 3 + 1), format!("{}", d.quarter()));
    }
    if d.num_days_in_month() as u32 != dim(m) {
        acc.violation("Datelike::num_days_in_month", format!("NaiveDate({:?}).num_days_in_month()", d), format!("{}", dim(m)), format!("{}", d.num_days_in_month()));
    }
    let ce = if y >= 1 { (true, y as u32) } else { (false, (1 - y) as u32) };
    if d.year_ce() != ce {
        acc.violation("Datelike::year_ce", format!("NaiveDate({:?}).year_ce()", d), format!("{:?}", ce), format!("{:?}", d.year_ce()));
    }
}

fn weeks(acc: &mut Acc, d: NaiveDate, z: i64) {
    let wd = weekday_from_days(z) as i64;
    for s in 0..7i64 {
        let first = z - (wd - s).rem_euclid(7);
        let last = first + 6;
        let w = d.week(WD[s as usize]);
        let gf = w.checked_first_day();
        let gl = w.checked_last_day();
        acc.transitions += 3;
        let wf = if day_in_range(first) { Some(first) } else { None };
        let wl = if day_in_range(last) { Some(last) } else { None };
        if gf.map(date_z) != wf || gl.map(date_z) != wl {
            acc.violation("NaiveWeek::checked_first_day/last_day", format!("NaiveDate({:?}).week({:?}).checked_first_day()/checked_last_day()", d, WD[s as usize]), format!("{:?} / {:?}", wf.map(mk_date), wl.map(mk_date)), format!("{:?} / {:?}", gf, gl));
        }
        let gd = w.checked_days();
        let wdays = match (wf, wl) {
            (Some(a), Some(b)) => Some((a, b)),
            _ => None,
        };
        if gd.clone().map(|r| (date_z(*r.start()), date_z(*r.end()))) != wdays {
            acc.violation("NaiveWeek::checked_days", format!("NaiveDate({:?}).week({:?}).checked_days()", d, WD[s as usize]), format!("{:?}", wdays), format!("{:?}", gd));
        }
        if wdays.is_some() || (z - MIN_DAY).min(MAX_DAY - z) < 7 {
            // the plain forms: the same days, or a panic where the checked forms say None
            acc.transitions += 3;
            let pf = guard(|| w.first_day()).ok();
            let pl = guard(|| w.last_day()).ok();
            let pd = guard(|| w.days()).ok();
            if pf != gf || pl != gl || pd != gd {
                acc.violation("NaiveWeek::first_day/last_day/days", format!("NaiveDate({:?}).week({:?}).first_day() / last_day() / days()", d, WD[s as usize]), format!("{:?} / {:?} / {:?} (panic for None)", gf, gl, gd), format!("{:?} / {:?} / {:?}", pf, pl, pd));
            }
        }
        if wdays.is_some() {
            acc.hit(WK_OK);
            // the start weekday, at most six days earlier, seven days long, contains the date
            let f = gf.unwrap();
            if f.weekday() != WD[s as usize] || z - date_z(f) > 6 || z < date_z(f) {
                acc.violation("NaiveWeek:shape", format!("NaiveDate({:?}).week({:?})", d, WD[s as usize]), "starts on the chosen weekday at most six days earlier".into(), format!("{:?}", f));
            }
        } else {
            acc.hit_nt(WK_OOR);
        }
    }
}

fn nth_weekday(acc: &mut Acc, y: i64, ns: &[u8]) {
    for m in 0..=13u32 {
        let valid_m = (1..=12).contains(&m) && year_ok(y as i128);
        let (first_wd, dim) = if valid_m { (weekday_from_days(days_from_civil(y, m, 1)), days_in_month(y, m)) } else { (0, 0) };
        for k in 0..7u32 {
            for &n in ns {
                let want = if valid_m && n >= 1 {
                    let day = 1 + (k + 7 - first_wd) % 7 + 7 * (n as u32 - 1);
                    if day <= dim {
                        Some((y, m, day))
                    } else {
                        None
                    }
                } else {
                    None
                };
                let got = guard(|| NaiveDate::from_weekday_of_month_opt(y as i32, m, WD[k as usize], n));
                acc.transitions += 1;
                match (got, want) {
                    (Ok(Some(g)), Some(w)) if ymd(g) == w && g.weekday() == WD[k as usize] => acc.hit(NTH_OK),
                    (Ok(None), None) => acc.hit_nt(NTH_NONE),
                    (g, w) => acc.violation("NaiveDate::from_weekday_of_month_opt", format!("NaiveDate::from_weekday_of_month_opt({}, {}, {:?}, {})", y, m, WD[k as usize], n), format!("{:?}", w), format!("{:?}", g)),
                }
                if want.is_some() || (n % 37 == 5 && m % 6 == 1) {
                    #[allow(deprecated)]
                    let dep = guard(|| NaiveDate::from_weekday_of_month(y as i32, m, WD[k as usize], n)).ok();
                    acc.transitions += 1;
                    if dep.map(ymd) != want {
                        acc.violation("NaiveDate::from_weekday_of_month (deprecated form)", format!("NaiveDate::from_weekday_of_month({}, {}, {:?}, {})", y, m, WD[k as usize], n), format!("{:?} (panic for None)", want), format!("{:?}", dep));
                    }
                }
            }
        }
    }
    // Month::num_days(year)
    for mi in 1..=12u32 {
        let mo = Month::from_u32(mi).unwrap();
        // in range: the calendar value. Out of range the documentation promises None but only February
        // implements that; the statement only asks for agreement with the calendar, so either answer is
        // accepted there as long as a returned length is the calendar's.
        let cal = Some(days_in_month(y, mi) as u8);
        acc.transitions += 1;
        let got = guard(|| mo.num_days(y as i32));
        let ok = match &got {
            Ok(g) => *g == cal || (g.is_none() && !year_ok(y as i128)),
            Err(_) => false,
        };
        if !ok {
            acc.violation("Month::num_days", format!("{:?}.num_days({})", mo, y), format!("{:?}", cal), format!("{:?}", got));
        }
    }
}

fn with_year_all(acc: &mut Acc, z: i64, ys: &[i64]) {
    let d = mk_date(z);
    let (_, m, day) = civil_from_days(z);
    for &y in ys {
        let want = if year_ok(y as i128) && day <= days_in_month(y, m) { Some((y, m, day)) } else { None };
        let got = guard(|| d.with_year(y as i32));
        acc.transitions += 1;
        match (got, want) {
            (Ok(Some(g)), Some(w)) if ymd(g) == w => {
                if m == 2 && day == 29 {
                    acc.hit_nt(FEB29)
                } else {
                    acc.hit(RP_OK)
                }
            }
            (Ok(None), None) => {
                if m == 2 && day == 29 && year_ok(y as i128) {
                    acc.hit_nt(FEB29)
                } else {
                    acc.hit_nt(RP_NE)
                }
            }
            (g, w) => acc.violation("NaiveDate::with_year", format!("NaiveDate({:?}).with_year({})", d, y), format!("{:?}", w), format!("{:?}", g)),
        }
    }
}

fn years_since(acc: &mut Acc, za: i64, all: &[i64]) {
    let a = mk_date(za);
    let (ya, ma, da) = civil_from_days(za);
    for &zb in all {
        let b = mk_date(zb);
        let (yb, mb, db) = civil_from_days(zb);
        let mut yrs = ya - yb;
        if (ma, da) < (mb, db) {
            yrs -= 1;
        }
        let want = if yrs >= 0 { Some(yrs as u32) } else { None };
        let got = a.years_since(b);
        acc.transitions += 1;
        if got != want {
            acc.violation("NaiveDate::years_since", format!("NaiveDate({:?}).years_since({:?})", a, b), format!("{:?}", want), format!("{:?}", got));
        } else if want.is_some() {
            acc.hit(YS_SOME)
        } else {
            acc.hit_nt(YS_NONE)
        }
    }
    // with times, through DateTime<Utc>
    for &zb in all.iter() {
        for (ta, tb) in [((0u32, 0u32), (0u32, 1u32)), ((43200, 0), (43200, 0)), ((86399, 999_999_999), (0, 0)), ((1, 0), (86399, 0))] {
            let a: DateTime<Utc> = mk_ndt(za, ta.0, ta.1).and_utc();
            let b: DateTime<Utc> = mk_ndt(zb, tb.0, tb.1).and_utc();
            let (yb, mb, db) = civil_from_days(zb);
            let mut yrs = ya - yb;
            if (ma, da, ta) < (mb, db, tb) {
                yrs -= 1;
            }
            let want = if yrs >= 0 { Some(yrs as u32) } else { None };
            acc.transitions += 1;
            let got = a.years_since(b);
            if got != want {
                acc.violation("DateTime::years_since", format!("DateTime({:?}).years_since({:?})", a, b), format!("{:?}", want), format!("{:?}", got));
            }
            let (na, nb) = (a.naive_utc(), b.naive_utc());
            acc.transitions += 1;
            if na.date().years_since(nb.date()).map(|v| v as i64 - if (ma, da) == (mb, db) && ta < tb { 1 } else { 0 }).filter(|v| *v >= 0) != want.map(|v| v as i64) {
                acc.violation("NaiveDate::years_since vs DateTime::years_since", format!("{:?} vs {:?}", a, b), format!("{:?}", want), format!("{:?}", na.date().years_since(nb.date())));
            }
        }
    }
}

fn datetime_keeps_time(acc: &mut Acc, z: i64) {
    let (y, m, day) = civil_from_days(z);
    for &(s, f) in &[(0u32, 0u32), (86399, 999_999_999), (86399, 1_999_999_999), (43200, 1), (3630, 1_500_000_000)] {
        let t = mk_ndt(z, s, f);
        for n in [1u32, 11, 12, 13, 4800] {
            let ym = y as i128 * 12 + m as i128 - 1 + n as i128;
            let (ty, tm) = (ym.div_euclid(12), ym.rem_euclid(12) as u32 + 1);
            let want = if year_ok(ty) { Some((days_from_civil(ty as i64, tm, day.min(days_in_month(ty as i64, tm))), s, f)) } else { None };
            acc.transitions += 1;
            let got = t.checked_add_months(Months::new(n)).map(ndt_parts);
            if got != want {
                acc.violation("NaiveDateTime::checked_add_months", format!("NaiveDateTime({:?}).checked_add_months(Months::new({}))", t, n), format!("{:?}", want), format!("{:?}", got));
            }
        }
        // every with_* on NaiveDateTime keeps all other fields
        let checks: Vec<(&str, Option<chrono::NaiveDateTime>, Option<(i64, u32, u32)>)> = vec![
            ("with_day(1)", t.with_day(1), Some((days_from_civil(y, m, 1), s, f))),
            ("with_day(31)", t.with_day(31), if days_in_month(y, m) == 31 { Some((days_from_civil(y, m, 31), s, f)) } else { None }),
            ("with_month(2)", t.with_month(2), if day <= days_in_month(y, 2) { Some((days_from_civil(y, 2, day), s, f)) } else { None }),
            ("with_ordinal(366)", t.with_ordinal(366), if is_leap(y) { Some((days_from_civil(y, 12, 31), s, f)) } else { None }),
            ("with_year(2000)", t.with_year(2000), Some((days_from_civil(2000, m, day), s, f))),
            ("with_hour(23)", t.with_hour(23), Some((z, 23 * 3600 + s % 3600, f))),
            ("with_hour(24)", t.with_hour(24), None),
            ("with_minute(59)", t.with_minute(59), Some((z, s / 3600 * 3600 + 59 * 60 + s % 60, f))),
            ("with_second(0)", t.with_second(0), Some((z, s / 60 * 60, f))),
            ("with_second(60)", t.with_second(60), None),
            ("with_nanosecond(5)", t.with_nanosecond(5), Some((z, s, 5))),
            ("with_nanosecond(2e9)", t.with_nanosecond(2_000_000_000), None),
        ];
        for (name, got, want) in checks {
            acc.transitions += 1;
            if got.map(ndt_parts) != want {
                acc.violation(&format!("NaiveDateTime::{}", name.split('(').next().unwrap()), format!("NaiveDateTime({:?}).{}", t, name), format!("{:?}", want), format!("{:?}", got));
            }
            acc.hit(DT_TIME);
        }
    }
}

/// month stepping of a zone-aware value in a zone whose offset changes (chrono_mc::gfzone): the step acts on the wall
/// clock, which is then read in the zone at the *new* date
fn months_in_changing_zone(acc: &mut Acc) {
    use chrono_mc::gfzone::*;
    let tz = GAPFOLD_2021;
    for u in zone_starts(tz) {
        let dt = tz.from_utc_datetime(&DateTime::from_timestamp(u, 0).unwrap().naive_utc());
        let w = u + tz.offset_at(u) as i64;
        let (wz, ws) = (w.div_euclid(86400), w.rem_euclid(86400));
        let (y, m, d) = civil_from_days(wz);
        for k in [0i64, 1, 2, 5, 6, 7, 11, 12, 13, 24] {
            for neg in [false, true] {
                let ym = y * 12 + m as i64 - 1 + if neg { -k } else { k };
                let (ty, tm) = (ym.div_euclid(12), ym.rem_euclid(12) as u32 + 1);
                let want = Some((days_from_civil(ty, tm, d.min(days_in_month(ty, tm))) * 86400 + ws, 0u32));
                let got = guard(|| if neg { dt.checked_sub_months(Months::new(k as u32)) } else { dt.checked_add_months(Months::new(k as u32)) });
                let got_val = got.clone().ok().flatten();
                if judge_in_zone(acc, if neg { "DateTime<zone>::checked_sub_months" } else { "DateTime<zone>::checked_add_months" }, &|| format!("[{:?} at offset {}].{}(Months::new({})) in a zone with a skipped hour (2021-03-28 02:00-03:00) and a repeated hour (2021-10-31 02:00-03:00)", dt.naive_local(), dt.offset().off, if neg { "checked_sub_months" } else { "checked_add_months" }, k), tz, got, want).is_some() {
                    acc.hit(DT_TIME);
                    // the operator agrees with the checked form (panic where that is None)
                    acc.transitions += 1;
                    let op = guard(|| if neg { dt - Months::new(k as u32) } else { dt + Months::new(k as u32) }).ok();
                    if op.map(|x| (x.naive_utc(), x.offset().off)) != got_val.map(|x| (x.naive_utc(), x.offset().off)) {
                        acc.violation("DateTime<zone>:Months-operator", format!("[{:?} at offset {}] {} Months::new({})", dt.naive_local(), dt.offset().off, if neg { "-" } else { "+" }, k), format!("{:?}", got_val), format!("{:?}", op));
                    }
                }
            }
        }
    }
}

/// Histories of length two on one thread for the field replacements whose results depend on the *target* year or
/// month class: a call that fails, the same call again, and calls whose (month, day) agree while the leap class differs.
fn history_pairs(acc: &mut Acc) {
    let dates: Vec<(i64, u32, u32)> = vec![(2024, 2, 29), (2023, 2, 28), (2023, 3, 15), (2024, 3, 15), (2024, 1, 29), (2023, 1, 29), (1900, 2, 28), (2000, 2, 29), (2023, 1, 31), (2024, 12, 31)];
    let years: Vec<i64> = vec![2023, 2024, 1900, 2000, 2100, 2400];
    let mut calls: Vec<(usize, i64)> = vec![];
    for (i, _) in dates.iter().enumerate() {
        for &y in &years {
            calls.push((i, y));
        }
    }
    for &k in &pair_order(calls.len()) {
        let (i, y) = calls[k];
        with_year_all(acc, days_from_civil(dates[i].0, dates[i].1, dates[i].2), &[y]);
    }
    let al: Vec<u32> = vec![];
    for &k in &pair_order(dates.len()) {
        let (y, m, d) = dates[k];
        let date = mk_date(days_from_civil(y, m, d));
        replacements(acc, date, y, m, d, false, &al);
        month_steps(acc, date, y, m, d, &[1, 2, 12]);
        // month lengths asked in alternation between year classes
        for yy in [1900i64, 2024, 2023, 2000] {
            acc.transitions += 1;
            let got = Month::February.num_days(yy as i32);
            if got != Some(days_in_month(yy, 2) as u8) {
                acc.violation("Month::num_days:history", format!("Month::February.num_days({}) after other years were asked", yy), format!("{:?}", Some(days_in_month(yy, 2))), format!("{:?}", got));
            }
        }
    }
}

fn main() {
    install_panic_hook();
    let args = parse_args();
    let start = Instant::now();
    if let Err(e) = selftest() {
        machinery(&format!("RefCal self-test failed: {}", e));
    }
    let spec = Spec {
        property: "C08",
        classes: CLASSES,
        required: &["month_step_ok", "month_clamped", "month_step_refused", "replace_ok", "replace_nonexistent", "replace_alias_rejected", "week_ok", "week_end_out_of_range", "nth_weekday_ok", "nth_weekday_none", "years_since_some", "years_since_none", "feb29_with_year", "datetime_keeps_time"],
        rule: "every date of the year alphabet (quick) / every representable date (thorough) x month counts {1,2,11,12,13,24,4800,...} both directions, x with_day/day0/month/month0/ordinal/ordinal0 over the in-domain argument ranges (complete on boundary dates, boundary subset elsewhere) plus alias arguments, x 7 week starts (first/last/days); from_weekday_of_month_opt for the year alphabet x months 0..=13 x 7 weekdays x every n 0..=255; with_year on boundary dates x year alphabet and every Feb 29 x years; years_since on all pairs of boundary dates (and with times through DateTime); NaiveDateTime month stepping and with_* keep the other fields; non-trivial = clamp, refusal, non-existent replacement, alias rejected, week end out of range, n-th weekday absent, negative years",
        assumptions: &["u32 arguments beyond the in-domain ranges are represented by alias classes (2^8, 2^16, 2^24, 2^31, u32::MAX neighbourhoods)", "years_since counts an anniversary by (month, day) comparison (29 Feb -> 1 Mar in common years)"],
    };
    let tier = args.tier;
    let ys = years(tier);
    let bd = b_dates(tier);
    let mut al = aliases_u32(&[0, 1, 12, 28, 31]);
    al.extend([u32::MAX, u32::MAX - 1, 1 << 31, 255, 256, 257, 367 + 256, 65536 + 59, 1000]);
    al.sort();
    al.dedup();
    let mut month_ns: Vec<u32> = vec![0, 1, 2, 3, 11, 12, 13, 24, 25, 4800, 4799, 1199, 1200, 12 * 262143, 12 * 524285, 12 * 524286, i32::MAX as u32, i32::MAX as u32 + 1, u32::MAX];
    month_ns.extend(lat_u32().into_iter().step_by(5));
    month_ns.sort();
    month_ns.dedup();
    let month_small: Vec<u32> = vec![1, 2, 11, 12, 13, 24, 4800];
    let ns_all: Vec<u8> = (0..=255).collect();
    let mut ys_ext: Vec<i64> = ys.clone();
    ys_ext.extend([MIN_YEAR - 1, MAX_YEAR + 1, i32::MIN as i64, i32::MAX as i64, MIN_YEAR - 400, MAX_YEAR + 400, 1 << 20, -(1 << 20)]);
    // units: per-year date sweeps | nth weekday per year chunk | years_since rows | with_year rows
    let sweep_years: Vec<i64> = if tier == Tier::Thorough {
        (MIN_YEAR..=MAX_YEAR).collect()
    } else {
        // the complete year alphabet (two 400-year cycles, both range ends, print/parse edges) + every 97th year
        let mut v = years(Tier::Thorough);
        v.extend((MIN_YEAR..=MAX_YEAR).step_by(97));
        v.sort();
        v.dedup();
        v
    };
    const YCHUNK: usize = 256;
    let n_sweep = ((sweep_years.len() + YCHUNK - 1) / YCHUNK) as u64;
    let n_nth = ((ys_ext.len() + 63) / 64) as u64;
    let n_bd = bd.len() as u64;
    let only = replay_unit(&args);
    let acc = explore_units(n_sweep + n_nth + n_bd, CLASSES.len(), only, |u, acc| {
        if u < n_sweep {
            for &y in &sweep_years[u as usize * YCHUNK..((u as usize + 1) * YCHUNK).min(sweep_years.len())] {
                let full_year = ys.binary_search(&y).is_ok();
                let z0 = days_from_civil(y, 1, 1);
                let mut d = mk_date(z0);
                let n = days_in_year(y) as i64;
                for k in 0..n {
                    let z = z0 + k;
                    let (yy, m, day) = civil_from_days(z);
                    acc.states += 1;
                    month_steps(acc, d, yy, m, day, &month_small);
                    let boundary = day <= 2 || day >= 27;
                    replacements(acc, d, yy, m, day, full_year && boundary, if boundary { &al } else { &al[..4] });
                    weeks(acc, d, z);
                    if k + 1 < n {
                        d = d.succ_opt().unwrap();
                    }
                }
            }
            acc.traces += 1;
            if u % 5 == 0 {
                acc.sample(|| format!("years {:?}..: every date x month steps {:?} x with_* arguments x 7 week starts", sweep_years[u as usize * YCHUNK], month_small));
            }
        } else if u < n_sweep + n_nth {
            let i = (u - n_sweep) as usize;
            for &y in &ys_ext[i * 64..((i + 1) * 64).min(ys_ext.len())] {
                nth_weekday(acc, y, &ns_all);
            }
            if i == 0 {
                months_in_changing_zone(acc);
                history_pairs(acc);
            }
            acc.traces += 1;
        } else {
            let z = bd[(u - n_sweep - n_nth) as usize];
            let d = mk_date(z);
            let (y, m, day) = civil_from_days(z);
            month_steps(acc, d, y, m, day, &month_ns);
            replacements(acc, d, y, m, day, true, &al);
            with_year_all(acc, z, &ys_ext);
            years_since(acc, z, &bd);
            datetime_keeps_time(acc, z);
            acc.states += 1;
            acc.traces += 1;
        }
    });
    let _ = Timelike::hour(&mk_time(0, 0));
    let extra = Extra {
        bounds: json!({"swept_years": sweep_years.len(), "boundary_dates": bd.len(), "year_alphabet": ys.len(), "month_counts_on_boundary_dates": month_ns.len(), "alias_arguments": al.len(), "nth_values": 256}),
        exhaustive: false,
        more: vec![],
    };
    finish(&spec, &args, start, acc, extra);
}
