//! C12 — every strftime specifier renders the documented field. Shape P.
use chrono::format::{Item, StrftimeItems};
use chrono::{DateTime, FixedOffset, NaiveDate, NaiveDateTime, NaiveTime, TimeZone, Utc};
use chrono_mc::core::*;
use chrono_mc::lattice::*;
use chrono_mc::refcal::*;
use chrono_mc::reffmt::*;
use serde_json::json;
use std::fmt::Write as _;
use std::time::Instant;

const CLASSES: &[&str] = &["rendered", "negative_year", "five_digit_year", "week0", "week53", "iso_year_differs", "leap_second", "offset_with_seconds", "offset_rounds_up", "unspecified_cell", "format_error_expected", "composite", "concatenation", "skipped_y_negative"];
const REND: usize = 0;
const NEGY: usize = 1;
const FIVE: usize = 2;
const WK0: usize = 3;
const WK53: usize = 4;
const ISOD: usize = 5;
const LEAP: usize = 6;
const OFFSEC: usize = 7;
const OFFUP: usize = 8;
const UNSPEC: usize = 9;
const FERR: usize = 10;
const COMPOSITE: usize = 11;
const CONCAT: usize = 12;
const SKIPY: usize = 13;

const PADS: [Pad; 4] = [Pad::Default, Pad::None, Pad::Space, Pad::Zero];

fn datef(z: i64) -> DateF {
    let (y, m, d) = civil_from_days(z);
    let (iso_y, iso_w) = iso_week_of(z);
    DateF { y, m, d, ord: ordinal(y, m, d), wd: weekday_from_days(z), iso_y, iso_w }
}

struct Joined {
    fmt: String,
    specs: Vec<&'static str>,
    pad: Pad,
    items: Vec<Item<'static>>,
}

fn joined(specs: &[&'static str], pad: Pad) -> Joined {
    let specs: Vec<&'static str> = specs.iter().cloned().filter(|s| pad == Pad::Default || is_numeric(s)).collect();
    let fmt: String = specs.iter().map(|s| format!("%{}{}", pad.modifier(), s)).collect::<Vec<_>>().join("|");
    let leaked: &'static str = Box::leak(fmt.clone().into_boxed_str());
    let items: Vec<Item<'static>> = StrftimeItems::new(leaked).collect();
    if items.iter().any(|i| *i == Item::Error) {
        machinery(&format!("harness: format string {:?} does not parse", fmt));
    }
    Joined { fmt, specs, pad, items }
}

/// run one joined format on a value, compare piece by piece
fn check_joined<F: Fn(&mut String, &[Item<'static>]) -> std::fmt::Result>(acc: &mut Acc, j: &Joined, render_impl: F, what: &dyn Fn() -> String, date: Option<&DateF>, time: Option<&TimeF>, off: Option<i32>, day: i64, buf: &mut String, exp: &mut String) {
    buf.clear();
    let r = render_impl(buf, &j.items);
    acc.transitions += 1;
    if r.is_err() {
        acc.violation("format:unexpected-error", format!("{}.format({:?})", what(), j.fmt), "a rendering".into(), "Err(fmt::Error)".into());
        return;
    }
    let mut pieces = buf.split('|');
    for spec in &j.specs {
        let Some(piece) = pieces.next() else {
            acc.violation("format:missing-piece", format!("{}.format({:?})", what(), j.fmt), "one piece per specifier".into(), buf.clone());
            return;
        };
        exp.clear();
        let cmp = if *spec == "s" {
            let ts = timestamp(day, time.unwrap(), off.unwrap_or(0));
            let _ = write!(exp, "{}", ts);
            if j.pad == Pad::Default || j.pad == Pad::None {
                Cmp::Exact
            } else {
                Cmp::Number { value: ts, signed: false }
            }
        } else {
            render(spec, j.pad, date, time, off, exp)
        };
        acc.transitions += 1;
        match cmp {
            Cmp::Skip => acc.hit(SKIPY),
            Cmp::Fail => machinery(&format!("harness: joined format contains a failing cell %{}{}", j.pad.modifier(), spec)),
            _ => {
                if !same(piece, exp, cmp) {
                    acc.violation(&format!("%{}{}", j.pad.modifier(), spec), format!("{}.format(\"%{}{}\")", what(), j.pad.modifier(), spec), format!("{:?}{}", exp, if cmp == Cmp::Exact { "" } else { " (same sign and digits, any padding)" }), format!("{:?}", piece));
                } else if cmp == Cmp::Exact {
                    acc.hit(REND);
                } else {
                    acc.hit_nt(UNSPEC);
                }
            }
        }
    }
}

fn must_fail<F: Fn(&mut String) -> std::fmt::Result>(acc: &mut Acc, fmt: &str, what: &str, f: F) {
    let mut s = String::new();
    acc.transitions += 2;
    let r = guard(|| f(&mut s));
    // a rendering that failed must leave nothing behind for the next one on this thread
    let after = guard(|| NaiveDate::from_ymd_opt(2001, 7, 8).unwrap().and_hms_opt(0, 34, 59).unwrap().format("%Y-%m-%d %H:%M:%S").to_string());
    if after.as_deref() != Ok("2001-07-08 00:34:59") {
        acc.violation("format:after-a-failed-rendering", format!("a valid rendering right after {}.format({:?}) failed", what, fmt), "\"2001-07-08 00:34:59\"".into(), format!("{:?}", after));
    }
    match r {
        Ok(Err(_)) => acc.hit_nt(FERR),
        Ok(Ok(())) => acc.violation("format:should-fail", format!("{}.format({:?})", what, fmt), "Err(fmt::Error) (unknown specifier, misplaced modifier, or a field the value does not have)".into(), format!("Ok: {:?}", s)),
        Err(p) => acc.violation("format:panic", format!("write!(s, \"{{}}\", {}.format({:?}))", what, fmt), "Err(fmt::Error)".into(), format!("panic: {}", p)),
    }
}

/// renderings whose order could matter to a hidden cache: composite before padded numeric specifiers in one format
/// string, and the same offset rendered through `Utc` and through `FixedOffset(0)` in alternation
fn orderings(acc: &mut Acc) {
    let ndt = NaiveDate::from_ymd_opt(2001, 7, 8).unwrap().and_hms_nano_opt(0, 34, 59, 26_490_708).unwrap();
    let pieces: [(&str, &str); 10] = [("%F", "2001-07-08"), ("%T", "00:34:59"), ("%D", "07/08/01"), ("%R", "00:34"), ("%-d", "8"), ("%_H", " 0"), ("%0e", "08"), ("%-j", "189"), ("%_m", " 7"), ("%-I", "12")];
    for &i in &pair_order(pieces.len()) {
        for &j in &[(i + 1) % pieces.len(), (i + 4) % pieces.len(), i] {
            let f = format!("{} {}", pieces[i].0, pieces[j].0);
            let want = format!("{} {}", pieces[i].1, pieces[j].1);
            acc.transitions += 1;
            let got = guard(|| {
                let mut o = String::new();
                write!(o, "{}", ndt.format(&f)).map(|_| o)
            });
            if got != Ok(Ok(want.clone())) {
                acc.violation("format:piece-order", format!("{:?}.format({:?})", ndt, f), want, format!("{:?}", got));
            }
        }
    }
    let u: DateTime<Utc> = Utc.from_utc_datetime(&ndt);
    let f0: DateTime<FixedOffset> = FixedOffset::east_opt(0).unwrap().from_utc_datetime(&ndt);
    let f5: DateTime<FixedOffset> = FixedOffset::east_opt(19_800).unwrap().from_utc_datetime(&ndt);
    for k in 0..6 {
        acc.transitions += 3;
        let got = guard(|| if k % 2 == 0 { (u.format("%Z %:z").to_string(), f0.format("%Z %:z").to_string(), f5.format("%Z").to_string()) } else { (f0.format("%Z %:z").to_string(), u.format("%Z %:z").to_string(), f5.format("%Z").to_string()) });
        let want = if k % 2 == 0 { ("UTC +00:00".to_string(), "+00:00 +00:00".to_string(), "+05:30".to_string()) } else { ("+00:00 +00:00".to_string(), "UTC +00:00".to_string(), "+05:30".to_string()) };
        if got != Ok(want.clone()) {
            acc.violation("format:%Z-alternation", "DateTime<Utc> and DateTime<FixedOffset>(+00:00) formatted with \"%Z %:z\" in alternation".into(), format!("{:?}", want), format!("{:?}", got));
        }
    }
}

/// letters that are specifiers in the documented table (with or without modifiers)
fn is_documented_letter(c: char) -> bool {
    [DATE_SPECS, TIME_SPECS, OFF_SPECS, DT_SPECS, DTO_SPECS, SPECIAL_SPECS].iter().any(|l| l.iter().any(|s| s.chars().last() == Some(c)))
}

fn failures(acc: &mut Acc) {
    let d = NaiveDate::from_ymd_opt(2001, 7, 8).unwrap();
    let t = NaiveTime::from_hms_nano_opt(0, 34, 59, 1_026_490_000).unwrap();
    let ndt = d.and_time(t);
    let dto: DateTime<FixedOffset> = FixedOffset::east_opt(34200).unwrap().from_local_datetime(&ndt).unwrap();
    let dtu: DateTime<Utc> = Utc.from_utc_datetime(&ndt);
    let mut bad: Vec<String> = vec![];
    for c in ["Q", "E", "O", "J", "K", "L", "N", "i", "o", "1", "!", "é", "", "-", "_", "0", ":", "::", ":::", "::::z", ".", ".3", ".1f", "3", "4f", "#", "#Y", "#:z", "-#z", "\u{1F63D}"] {
        bad.push(format!("%{}", c));
        bad.push(format!("%Y-%{}", c));
    }
    // padding modifiers are only allowed on numeric specifiers
    for list in [DATE_SPECS, TIME_SPECS, OFF_SPECS, DT_SPECS, DTO_SPECS, SPECIAL_SPECS] {
        for s in list {
            if !is_numeric(s) {
                for m in ["-", "_", "0"] {
                    bad.push(format!("%{}{}", m, s));
                }
            }
        }
    }
    bad.push("%-Z".into());
    bad.sort();
    bad.dedup();
    for f in &bad {
        // A letter that is not a specifier today may become one (the statement speaks of *unknown* specifiers): if the
        // format-string reader now turns it into a field item instead of flagging an error, it is a newly defined
        // specifier and outside this check. Still printing it as literal text, or anything else, is judged.
        let last = f.chars().last().unwrap_or(' ');
        if last.is_ascii_alphabetic() && f.chars().filter(|c| *c == '%').count() <= 2 {
            let items: Vec<Item> = StrftimeItems::new(f).collect();
            let has_err = items.iter().any(|i| matches!(i, Item::Error));
            let field_items = items.iter().filter(|i| matches!(i, Item::Numeric(..) | Item::Fixed(..))).count();
            let expected_fields = if f.starts_with("%Y-") { 2 } else { 1 };
            if !has_err && field_items == expected_fields && !is_documented_letter(last) {
                acc.skip("a letter outside today's specifier table that the format-string reader now defines as a field");
                continue;
            }
        }
        must_fail(acc, f, "NaiveDate", |s| write!(s, "{}", d.format(f)));
        must_fail(acc, f, "NaiveTime", |s| write!(s, "{}", t.format(f)));
        must_fail(acc, f, "NaiveDateTime", |s| write!(s, "{}", ndt.format(f)));
        must_fail(acc, f, "DateTime<FixedOffset>", |s| write!(s, "{}", dto.format(f)));
        must_fail(acc, f, "DateTime<Utc>", |s| write!(s, "{}", dtu.format(f)));
        must_fail(acc, f, "DateTime<FixedOffset> (write_to)", |s| dto.format(f).write_to(s));
    }
    // fields the value does not have
    for s in TIME_SPECS.iter().chain(OFF_SPECS.iter()).chain(DT_SPECS.iter()).chain(["+", "Z"].iter()) {
        let f = format!("%{}", s);
        must_fail(acc, &f, "NaiveDate", |o| write!(o, "{}", d.format(&f)));
        let f2 = format!("%Y %{}", s);
        must_fail(acc, &f2, "NaiveDate", |o| write!(o, "{}", d.format(&f2)));
    }
    for s in DATE_SPECS.iter().chain(OFF_SPECS.iter()).chain(DT_SPECS.iter()).chain(["+", "Z"].iter()) {
        let f = format!("%{}", s);
        must_fail(acc, &f, "NaiveTime", |o| write!(o, "{}", t.format(&f)));
    }
    for s in OFF_SPECS.iter().chain(["+", "Z"].iter()) {
        let f = format!("%{}", s);
        must_fail(acc, &f, "NaiveDateTime", |o| write!(o, "{}", ndt.format(&f)));
    }
}

fn concatenations(acc: &mut Acc) {
    let pieces: [&str; 14] = ["%Y", "%m", "%e", "%H", "%.3f", "%:z", "%j", "a", "%%", " ", "é", "%t", "%n", "T%-d"];
    let vals: Vec<(i64, u32, u32, i32)> = vec![(days_from_civil(2001, 7, 8), 2099, 26_490_000, 34200), (days_from_civil(-5, 1, 1), 86399, 1_999_999_999, -3599), (days_from_civil(12345, 12, 31), 0, 0, 0)];
    let mut exp = String::new();
    let mut got = String::new();
    for &(z, s, f, o) in &vals {
        let dt = FixedOffset::east_opt(o).unwrap().from_local_datetime(&mk_ndt(z, s, f)).unwrap();
        let df = datef(z);
        let tf = TimeF { secs: s, frac: f };
        for a in pieces {
            for b in pieces {
                for c in pieces {
                    let fmt = format!("{}{}{}", a, b, c);
                    exp.clear();
                    let mut judged = true;
                    for p in [a, b, c] {
                        if p == "T%-d" {
                            exp.push('T');
                            let _ = write!(exp, "{}", df.d);
                        } else if let Some(spec) = p.strip_prefix('%') {
                            if render(spec, Pad::Default, Some(&df), Some(&tf), Some(o), &mut exp) != Cmp::Exact {
                                judged = false;
                            }
                        } else {
                            exp.push_str(p);
                        }
                    }
                    got.clear();
                    acc.transitions += 1;
                    let r = write!(got, "{}", dt.format(&fmt));
                    if r.is_err() || (judged && got != exp) {
                        acc.violation("format:concatenation", format!("{:?}.format({:?})", dt, fmt), format!("{:?}", exp), format!("{:?} ({:?})", got, r));
                    } else {
                        acc.hit(CONCAT);
                    }
                }
            }
        }
    }
}

fn main() {
    install_panic_hook();
    let args = parse_args();
    let start = Instant::now();
    if let Err(e) = selftest() {
        machinery(&format!("RefCal self-test failed: {}", e));
    }
    // RefFmt self-test against the documentation's own example row (2001-07-08T00:34:60.026490+09:30)
    {
        let z = days_from_civil(2001, 7, 8);
        let df = datef(z);
        let tf = TimeF { secs: 34 * 60 + 59, frac: 1_026_490_000 };
        let rows: &[(&str, &str)] = &[
            ("Y", "2001"), ("C", "20"), ("y", "01"), ("q", "3"), ("m", "07"), ("b", "Jul"), ("B", "July"), ("h", "Jul"), ("d", "08"), ("e", " 8"), ("a", "Sun"), ("A", "Sunday"), ("w", "0"), ("u", "7"),
            ("U", "27"), ("W", "27"), ("G", "2001"), ("g", "01"), ("V", "27"), ("j", "189"), ("D", "07/08/01"), ("x", "07/08/01"), ("F", "2001-07-08"), ("v", " 8-Jul-2001"), ("H", "00"), ("k", " 0"),
            ("I", "12"), ("l", "12"), ("P", "am"), ("p", "AM"), ("M", "34"), ("S", "60"), ("f", "026490000"), (".f", ".026490"), (".3f", ".026"), (".6f", ".026490"), (".9f", ".026490000"), ("3f", "026"),
            ("6f", "026490"), ("9f", "026490000"), ("R", "00:34"), ("T", "00:34:60"), ("X", "00:34:60"), ("r", "12:34:60 AM"), ("z", "+0930"), (":z", "+09:30"), ("::z", "+09:30:00"), (":::z", "+09"),
            ("c", "Sun Jul  8 00:34:60 2001"), ("+", "2001-07-08T00:34:60.026490+09:30"),
        ];
        for (spec, want) in rows {
            let mut o = String::new();
            render(spec, Pad::Default, Some(&df), Some(&tf), Some(34200), &mut o);
            // the table's %U example (28) belongs to a different sample; every other row is the 2001-07-08 sample
            if &o != want {
                machinery(&format!("RefFmt disagrees with the documentation table on %{}: {:?} vs {:?}", spec, o, want));
            }
        }
    }
    let spec = Spec {
        property: "C12",
        classes: CLASSES,
        required: &["rendered", "negative_year", "five_digit_year", "week0", "week53", "iso_year_differs", "leap_second", "offset_with_seconds", "offset_rounds_up", "unspecified_cell", "format_error_expected", "composite", "concatenation"],
        rule: "every specifier of the documented table x padding modifier {none,-,_,0} (where a modifier is allowed) x every day of the year alphabet (week numbers depend on ordinal x year class) through NaiveDate, x boundary times through NaiveTime, x their combination through NaiveDateTime and DateTime<FixedOffset>/<Utc>, x offsets (thorough: every second of (-24h,24h); quick: every 7th second plus boundaries) for the offset specifiers; %c, %+, %s on boundary wall clocks x offsets; rendering through Display (write!) and DelayedFormat::write_to; expectations come from RefFmt (the documentation table transcribed; its 50 example cells are asserted at start-up); unknown specifiers, misplaced modifiers and fields the value lacks must make formatting fail; all 3-item concatenations over a 14-piece set; cells the documentation leaves open (padding of signed years / centuries, padded %s) are compared as 'same sign and digits'; non-trivial = negative / 5-digit year, week 0 / 53, ISO year differs, leap second, offsets with seconds, expected failures",
        assumptions: &["%y / %g / %D / %x are judged only for years >= 0 (statement)", "%Z is judged only as 'equals %:z' for whole-minute offsets; %#z is parse-only and not rendered"],
    };
    let tier = args.tier;
    let alphabet = years(Tier::Thorough); // the complete year alphabet in both tiers
    let ys: Vec<i64> = if tier == Tier::Thorough { (MIN_YEAR..=MAX_YEAR).collect() } else { alphabet.clone() };
    let mut times = b_times_fracs(true);
    // leap-second representations on a second other than :59 (what an offset with seconds, or with_second, produces)
    times.extend([(15u32, 1_000_000_000u32), (44_129, 1_250_000_000), (0, 1_999_999_999), (86_340, 1_000_000_001)]);
    let j_date: Vec<Joined> = PADS.iter().map(|p| joined(DATE_SPECS, *p)).collect();
    let j_time: Vec<Joined> = PADS.iter().map(|p| joined(TIME_SPECS, *p)).collect();
    let all_dt: Vec<&'static str> = DATE_SPECS.iter().chain(TIME_SPECS.iter()).chain(DT_SPECS.iter()).cloned().collect();
    let j_ndt: Vec<Joined> = PADS.iter().map(|p| joined(&all_dt, *p)).collect();
    let all_dto: Vec<&'static str> = DATE_SPECS.iter().chain(TIME_SPECS.iter()).chain(OFF_SPECS.iter()).chain(DTO_SPECS.iter()).chain(["c"].iter()).cloned().collect();
    let j_dto: Vec<Joined> = PADS.iter().map(|p| joined(&all_dto, *p)).collect();
    let j_off = joined(OFF_SPECS, Pad::Default);
    let small = b_dates_small();
    let offs_b = b_offsets_small();
    const YCH: usize = 64;
    let n_y = ((ys.len() + YCH - 1) / YCH) as u64;
    let n_off = 64u64;
    let only = replay_unit(&args);
    let acc = explore_units(n_y + n_off + small.len() as u64 + 3, CLASSES.len(), only, |u, acc| {
        let mut buf = String::with_capacity(512);
        let mut exp = String::with_capacity(64);
        if u < n_y {
            for &y in &ys[u as usize * YCH..((u as usize + 1) * YCH).min(ys.len())] {
                let z0 = days_from_civil(y, 1, 1);
                let n = days_in_year(y) as i64;
                let mut d = mk_date(z0);
                for k in 0..n {
                    let z = z0 + k;
                    let df = datef(z);
                    let in_alphabet = tier != Tier::Thorough || alphabet.binary_search(&y).is_ok();
                    for j in j_date.iter().take(if in_alphabet { 4 } else { 1 }) {
                        check_joined(acc, j, |b, items| d.format_with_items(items.iter()).write_to(b), &|| format!("NaiveDate({:?})", d), Some(&df), None, None, z, &mut buf, &mut exp);
                    }
                    acc.states += 1;
                    if y < 0 {
                        acc.hit(NEGY);
                    }
                    if y.abs() > 9999 {
                        acc.hit(FIVE);
                    }
                    if df.ord <= 7 && (df.ord as i64 - 1 + 7 - ((df.wd as i64 + 1) % 7)) / 7 == 0 {
                        acc.hit_nt(WK0);
                    }
                    if df.iso_w == 53 || (df.ord - 1 + 7 - df.wd) / 7 == 53 {
                        acc.hit_nt(WK53);
                    }
                    if df.iso_y != df.y {
                        acc.hit_nt(ISOD);
                    }
                    if k + 1 < n {
                        d = d.succ_opt().unwrap();
                    }
                }
            }
            acc.traces += 1;
            if u % 23 == 0 {
                acc.sample(|| format!("every day of year {}: NaiveDate.format({:?}) and the -, _, 0 variants, piece by piece against RefFmt", ys[u as usize * YCH], j_date[0].fmt));
            }
        } else if u < n_y + n_off {
            // offsets through DateTime<FixedOffset>
            let i = (u - n_y) as i32;
            let stride = 1; // every second of (-24h, 24h)
            let lo = -86399 + i * 2700;
            let ndt = mk_ndt(days_from_civil(2001, 7, 8), 2099, 26_490_000);
            let mut o = lo;
            while o < lo + 2700 && o <= 86399 {
                let dt = FixedOffset::east_opt(o).unwrap().from_utc_datetime(&ndt);
                check_joined(acc, &j_off, |b, items| dt.format_with_items(items.iter()).write_to(b), &|| format!("DateTime at offset {} s", o), None, None, Some(o), 0, &mut buf, &mut exp);
                if o % 60 != 0 {
                    acc.hit_nt(OFFSEC);
                    if o.abs() % 60 >= 30 {
                        acc.hit(OFFUP);
                    }
                } else {
                    // %Z prints the offset like %:z for whole-minute offsets
                    buf.clear();
                    exp.clear();
                    let _ = write!(buf, "{}", dt.format("%Z"));
                    offset_text(&mut exp, o, 1);
                    acc.transitions += 1;
                    if buf != exp {
                        acc.violation("%Z", format!("DateTime at offset {} s .format(\"%Z\")", o), exp.clone(), buf.clone());
                    }
                }
                acc.states += 1;
                o += stride;
            }
            for &ob in &offs_b {
                let dt = FixedOffset::east_opt(ob).unwrap().from_utc_datetime(&ndt);
                check_joined(acc, &j_off, |b, items| write!(b, "{}", dt.format_with_items(items.iter())), &|| format!("DateTime at offset {} s", ob), None, None, Some(ob), 0, &mut buf, &mut exp);
            }
            acc.traces += 1;
        } else if u < n_y + n_off + small.len() as u64 {
            let z = small[(u - n_y - n_off) as usize];
            let df = datef(z);
            for &(s, f) in &times {
                let tf = TimeF { secs: s, frac: f };
                let t = mk_time_any(s, f);
                let ndt = mk_ndt(z, s, f);
                for j in &j_time {
                    check_joined(acc, j, |b, items| write!(b, "{}", t.format_with_items(items.iter())), &|| format!("NaiveTime({:?})", t), None, Some(&tf), None, z, &mut buf, &mut exp);
                }
                for j in &j_ndt {
                    check_joined(acc, j, |b, items| write!(b, "{}", ndt.format_with_items(items.iter())), &|| format!("NaiveDateTime({:?})", ndt), Some(&df), Some(&tf), None, z, &mut buf, &mut exp);
                    acc.hit(COMPOSITE);
                }
                if f >= 1_000_000_000 {
                    acc.hit_nt(LEAP);
                }
                for &o in &offs_b {
                    let Some(dt) = FixedOffset::east_opt(o).unwrap().from_local_datetime(&ndt).single() else { continue };
                    for j in &j_dto {
                        check_joined(acc, j, |b, items| write!(b, "{}", dt.format_with_items(items.iter())), &|| format!("DateTime({:?})", dt), Some(&df), Some(&tf), Some(o), z, &mut buf, &mut exp);
                        // write_to gives the same text as Display
                        let l = buf.len();
                        acc.transitions += 1;
                        let mut again = String::with_capacity(l);
                        let r = dt.format_with_items(j.items.iter()).write_to(&mut again);
                        if r.is_err() || again != buf {
                            acc.violation("DelayedFormat::write_to", format!("{:?}.format({:?}).write_to(..)", dt, j.fmt), buf.clone(), format!("{:?} {:?}", again, r));
                        }
                    }
                    if o == 0 {
                        let u: DateTime<Utc> = Utc.from_utc_datetime(&ndt);
                        check_joined(acc, &j_dto[0], |b, items| write!(b, "{}", u.format_with_items(items.iter())), &|| format!("DateTime<Utc>({:?})", u), Some(&df), Some(&tf), Some(0), z, &mut buf, &mut exp);
                    }
                }
                acc.states += 1;
            }
            acc.traces += 1;
        } else if u == n_y + n_off + small.len() as u64 {
            failures(acc);
            orderings(acc);
            acc.traces += 1;
            acc.sample(|| "unknown specifier / misplaced modifier / missing field: write!(s, \"{}\", value.format(\"%-b\")) must be Err".to_string());
        } else if u == n_y + n_off + small.len() as u64 + 1 {
            concatenations(acc);
            acc.traces += 1;
        } else {
            // parsing the format string through StrftimeItems::new and then format_with_items equals format(fmt)
            let ndt = mk_ndt(days_from_civil(-99, 3, 4), 3723, 5);
            for j in j_ndt.iter() {
                let a = ndt.format(&j.fmt).to_string();
                let b = ndt.format_with_items(j.items.iter()).to_string();
                acc.transitions += 1;
                if a != b {
                    acc.violation("format vs format_with_items", format!("{:?}.format({:?})", ndt, j.fmt), b, a.clone());
                }
                // the rendering is one string for the formatter's width / alignment / fill flags (std's rules for &str)
                acc.transitions += 1;
                let w = a.chars().count() + 3;
                let got = (format!("{:>w$}", ndt.format(&j.fmt), w = w), format!("{:*<w$}", ndt.format(&j.fmt), w = w), format!("{:^w$}", ndt.format(&j.fmt), w = w), format!("{:1}", ndt.format(&j.fmt)));
                let want = (format!("{:>w$}", a, w = w), format!("{:*<w$}", a, w = w), format!("{:^w$}", a, w = w), a.clone());
                if got != want {
                    acc.violation("DelayedFormat:width-and-alignment", format!("format!(\"{{:>w$}}\" / \"{{:*<w$}}\" / \"{{:^w$}}\" / \"{{:1}}\", {:?}.format({:?})), w = {}", ndt, j.fmt, w), format!("{:?}", want), format!("{:?}", got));
                }
            }
            acc.traces += 1;
        }
    });
    let _ = NaiveDateTime::MIN;
    let extra = Extra {
        bounds: json!({"years": ys.len(), "date_specifiers": DATE_SPECS, "time_specifiers": TIME_SPECS, "offset_specifiers": OFF_SPECS, "pads": 4, "times": times.len(), "offsets_every_second": tier == Tier::Thorough, "concatenation_pieces": 14, "unspecified_cells": "padding of %Y/%G outside 0..=9999 and of %C outside 0..=99 with -,_,0; %_s / %0s"}),
        exhaustive: false,
        more: vec![],
    };
    finish(&spec, &args, start, acc, extra);
}
