//! C10 — RFC 3339: conformant output, exact acceptance. Shapes P (output product, field sweeps) + F (all strings within 2 edits).
use chrono::{DateTime, FixedOffset, SecondsFormat, TimeZone};
use chrono_mc::core::*;
use chrono_mc::lattice::*;
use chrono_mc::refcal::*;
use chrono_mc::reftext::{rfc3339, Stamp};
use serde_json::json;
use std::time::Instant;

const CLASSES: &[&str] = &["output_ok", "output_z", "output_leap", "output_truncated", "accepted", "rejected", "accepted_latitude", "rejected_value", "rejected_syntax", "edit2_accepted"];
const OUT_OK: usize = 0;
const OUT_Z: usize = 1;
const OUT_LEAP: usize = 2;
const OUT_TRUNC: usize = 3;
const ACCEPT: usize = 4;
const REJECT: usize = 5;
const LATITUDE: usize = 6;
const REJ_VALUE: usize = 7;
const REJ_SYNTAX: usize = 8;
const EDIT2_ACC: usize = 9;

fn stamp_of(dt: &DateTime<FixedOffset>) -> ((i64, u32, u32), i32) {
    (ndt_parts(dt.naive_utc()), dt.offset().local_minus_utc())
}

/// exact acceptance: impl Ok(v) iff the reference accepts, and then v is the denoted value
fn accept_one(acc: &mut Acc, s: &str, edit2: bool) {
    let want = rfc3339(s);
    let got = guard(|| DateTime::parse_from_rfc3339(s));
    acc.transitions += 1;
    match (got, want) {
        (Ok(Ok(dt)), Some(st)) => {
            if stamp_of(&dt) != (st.utc(), st.off) {
                acc.violation("parse_from_rfc3339:value", format!("DateTime::parse_from_rfc3339({:?})", s), format!("{:?}", st), format!("{:?}", dt));
            } else {
                acc.hit(ACCEPT);
                if edit2 {
                    acc.hit(EDIT2_ACC);
                }
                if s.contains('t') || s.contains('z') || s.contains(' ') || s.contains('\u{2212}') {
                    acc.hit_nt(LATITUDE);
                }
            }
        }
        (Ok(Err(_)), None) => {
            acc.hit(REJECT);
        }
        (Ok(Ok(dt)), None) => acc.violation("parse_from_rfc3339:accepts-invalid", format!("DateTime::parse_from_rfc3339({:?})", s), "Err (does not match the grammar or denotes no date/time/offset)".into(), format!("Ok({:?})", dt)),
        (Ok(Err(e)), Some(st)) => acc.violation("parse_from_rfc3339:rejects-valid", format!("DateTime::parse_from_rfc3339({:?})", s), format!("Ok({:?})", st), format!("Err({:?})", e)),
        (Err(p), _) => acc.violation("parse_from_rfc3339:panic", format!("DateTime::parse_from_rfc3339({:?})", s), "Ok or Err".into(), format!("panic: {}", p)),
    }
}

const ALPHA: &[char] = &['0', '9', '6', '2', ':', '-', '+', '.', 'T', 't', 'Z', 'z', ' ', '\u{2212}', 'a', 'é', '\u{0663}', '\u{FF11}', '\u{00B2}', '\0', '\r', '\u{1a}', '\u{10}', '\u{0b}'];

fn edits1(base: &[char], out: &mut Vec<Vec<char>>) {
    for i in 0..=base.len() {
        for &a in ALPHA {
            let mut v = base.to_vec();
            v.insert(i, a);
            out.push(v);
        }
        if i < base.len() {
            let mut v = base.to_vec();
            v.remove(i);
            out.push(v);
            for &a in ALPHA {
                if a != base[i] {
                    let mut v = base.to_vec();
                    v[i] = a;
                    out.push(v);
                }
            }
            if i + 1 < base.len() && base[i] != base[i + 1] {
                let mut v = base.to_vec();
                v.swap(i, i + 1);
                out.push(v);
            }
        }
    }
}

fn output_one(acc: &mut Acc, z: i64, s: u32, f: u32, off: i32) {
    let wall = mk_ndt(z, s, f);
    let fo = FixedOffset::east_opt(off).unwrap();
    let Some(dt) = fo.from_local_datetime(&wall).single() else {
        acc.skip("wall clock whose instant is outside the range");
        return;
    };
    let (y, mo, d) = civil_from_days(z);
    let leap = f >= 1_000_000_000;
    let fr = f % 1_000_000_000;
    let forms = [(SecondsFormat::Secs, 0u32), (SecondsFormat::Millis, 3), (SecondsFormat::Micros, 6), (SecondsFormat::Nanos, 9), (SecondsFormat::AutoSi, 99)];
    for (sf, digits) in forms {
        for use_z in [false, true] {
            let txt = match guard(|| dt.to_rfc3339_opts(sf, use_z)) {
                Ok(t) => t,
                Err(p) => {
                    acc.violation("to_rfc3339_opts:panic", format!("{:?}.to_rfc3339_opts({:?}, {})", dt, sf, use_z), "a string".into(), format!("panic: {}", p));
                    continue;
                }
            };
            acc.transitions += 1;
            let nd = match digits {
                99 => {
                    if fr == 0 {
                        0
                    } else if fr % 1_000_000 == 0 {
                        3
                    } else if fr % 1000 == 0 {
                        6
                    } else {
                        9
                    }
                }
                n => n,
            };
            let kept = if nd == 0 { 0 } else { fr / 10u32.pow(9 - nd) };
            use std::fmt::Write as _;
            let mut exp = String::with_capacity(48);
            let _ = write!(exp, "{:04}-{:02}-{:02}T{:02}:{:02}:{:02}", y, mo, d, s / 3600, s / 60 % 60, s % 60 + leap as u32);
            if nd > 0 {
                let _ = write!(exp, ".{:0w$}", kept, w = nd as usize);
            }
            if use_z && off == 0 {
                exp.push('Z');
            } else {
                let _ = write!(exp, "{}{:02}:{:02}", if off < 0 { '-' } else { '+' }, off.abs() / 3600, off.abs() / 60 % 60);
            }
            if txt != exp {
                acc.violation("to_rfc3339_opts:text", format!("{:?}.to_rfc3339_opts({:?}, {})", dt, sf, use_z), exp.clone(), txt.clone());
                continue;
            }
            // matches the grammar and reparses to the same instant (at the printed precision) and offset
            let trunc_frac = if nd == 0 { 0 } else { kept * 10u32.pow(9 - nd) } + if leap { 1_000_000_000 } else { 0 };
            let want = Stamp { y, mo, d, h: s / 3600, mi: s / 60 % 60, s: s % 60, frac: trunc_frac, off };
            acc.transitions += 2;
            if rfc3339(&txt) != Some(want) {
                acc.violation("to_rfc3339_opts:grammar", format!("{:?}.to_rfc3339_opts({:?}, {}) = {:?}", dt, sf, use_z, txt), format!("an RFC 3339 date-time denoting {:?}", want), format!("{:?}", rfc3339(&txt)));
            }
            match DateTime::parse_from_rfc3339(&txt) {
                Ok(p) if stamp_of(&p) == (want.utc(), off) => acc.hit(OUT_OK),
                other => acc.violation("to_rfc3339_opts:reparse", format!("parse_from_rfc3339({:?})", txt), format!("{:?}", want), format!("{:?}", other)),
            }
            if use_z && off == 0 {
                acc.hit_nt(OUT_Z);
            }
            if leap {
                acc.hit_nt(OUT_LEAP);
            }
            if trunc_frac % 1_000_000_000 != fr {
                acc.hit_nt(OUT_TRUNC);
            }
        }
    }
    // to_rfc3339() is the AutoSi form without Z
    acc.transitions += 1;
    let a = guard(|| dt.to_rfc3339());
    let b = guard(|| dt.to_rfc3339_opts(SecondsFormat::AutoSi, false));
    if a != b {
        acc.violation("to_rfc3339", format!("{:?}.to_rfc3339()", dt), format!("{:?}", b), format!("{:?}", a));
    }
    // sibling routes: the Fixed::RFC3339 item (what `%+` expands to) writes the same text and reads it back; the same
    // instant as DateTime<Utc> prints what the zero-offset DateTime<FixedOffset> prints
    const ITEM: [chrono::format::Item<'static>; 1] = [chrono::format::Item::Fixed(chrono::format::Fixed::RFC3339)];
    acc.transitions += 3;
    let via = guard(|| dt.format_with_items(ITEM.iter()).to_string());
    if via != a {
        acc.violation("Fixed::RFC3339 item:text", format!("{:?}.format_with_items([Fixed::RFC3339])", dt), format!("{:?}", a), format!("{:?}", via));
    }
    if let Ok(t) = &a {
        let back = guard(|| {
            let mut p = chrono::format::Parsed::new();
            chrono::format::parse(&mut p, t, ITEM.iter()).and_then(|_| p.to_datetime())
        });
        match back {
            Ok(Ok(p)) if p == dt && p.offset().local_minus_utc() == off && p.naive_utc() == dt.naive_utc() => {}
            other => acc.violation("Fixed::RFC3339 item:reparse", format!("format::parse(.., {:?}, [Fixed::RFC3339]) then to_datetime()", t), format!("{:?}", dt), format!("{:?}", other)),
        }
    }
    let u = dt.with_timezone(&chrono::Utc);
    let f0 = u.fixed_offset();
    for (sf, _) in forms {
        for use_z in [false, true] {
            let (x, y) = (guard(|| u.to_rfc3339_opts(sf, use_z)), guard(|| f0.to_rfc3339_opts(sf, use_z)));
            acc.transitions += 1;
            if x != y || x.is_err() {
                acc.violation("DateTime<Utc>::to_rfc3339_opts", format!("{:?}.to_rfc3339_opts({:?}, {}) vs the same instant as DateTime<FixedOffset> at +00:00", u, sf, use_z), format!("{:?}", y), format!("{:?}", x));
            }
        }
    }
}

fn field_sweeps(acc: &mut Acc) {
    // each field through all its two-digit values inside a valid template
    let mut buf;
    for y in 0..10000u32 {
        for (mo, d) in [(2u32, 28u32), (2, 29), (12, 31)] {
            buf = format!("{:04}-{:02}-{:02}T23:59:60.5+05:30", y, mo, d);
            accept_one(acc, &buf, false);
        }
    }
    for y in [2023u32, 2024, 1900, 2000, 0, 9999] {
        for mo in 0..100u32 {
            for d in 0..100u32 {
                buf = format!("{:04}-{:02}-{:02}T12:00:00Z", y, mo, d);
                accept_one(acc, &buf, false);
                if rfc3339(&buf).is_none() {
                    acc.hit_nt(REJ_VALUE);
                }
            }
        }
    }
    for h in 0..100u32 {
        for mi in 0..100u32 {
            buf = format!("2015-02-18T{:02}:{:02}:09.153+05:30", h, mi);
            accept_one(acc, &buf, false);
            buf = format!("2015-02-18T23:{:02}:{:02}-00:00", h, mi);
            accept_one(acc, &buf, false);
            for sign in ["+", "-", "\u{2212}"] {
                buf = format!("2015-02-18T23:16:09{}{:02}:{:02}", sign, h, mi);
                accept_one(acc, &buf, false);
                buf = format!("0000-01-01T00:00:00{}{:02}:{:02}", sign, h, mi);
                accept_one(acc, &buf, false);
                buf = format!("9999-12-31T23:59:59.999999999{}{:02}:{:02}", sign, h, mi);
                accept_one(acc, &buf, false);
            }
        }
    }
    // fraction lengths 0..=600 and around 2^16 / 2^17, separators, zulu variants, offset shapes
    for n in 0..=20usize {
        let digits: String = "1234567890987654321098".chars().take(n).collect();
        for sep in ["T", "t", " ", "_", "", "  ", "\t"] {
            for off in ["Z", "z", "+00:00", "-00:00", "+0000", "+00", "+00:0", "+00:000", "+24:00", "+23:60", "+23:59", "\u{2212}23:59", "-23:59:00", "", " Z", "UTC", "+1:00", "+01 00", "+01:00 "] {
                buf = format!("2015-02-18{}23:16:09{}{}{}", sep, if n > 0 || off == "" { "." } else { "" }, digits, off);
                accept_one(acc, &buf, false);
                buf = format!("2015-02-18{}23:16:09{}{}", sep, if n > 0 { format!(".{}", digits) } else { String::new() }, off);
                accept_one(acc, &buf, false);
                if rfc3339(&buf).is_none() {
                    acc.hit_nt(REJ_SYNTAX);
                }
            }
        }
    }
    // long fractions: every length up to 600 digits and the lengths around 2^16 and 2^17 (a count of the digits past
    // the ninth kept in a narrow integer, or a length-limited scan, shows at one of them); the value is the first nine
    for n in (21..=600usize).chain(65_530..=65_550).chain([131_080, 131_081]) {
        let digits: String = "1234567890987654321098".chars().cycle().take(n).collect();
        for off in ["Z", "+05:30"] {
            buf = format!("2015-02-18T23:16:09.{}{}", digits, off);
            accept_one(acc, &buf, false);
        }
        buf = format!("2015-02-18T23:59:60.{}-00:00", digits);
        accept_one(acc, &buf, false);
    }
}

/// Histories of length two on one thread: renderings at offsets that share a quarter hour, at +X / -X, on both sides
/// of 1970 and of midnight, leap and ordinary seconds; and readings from ONE buffer that is overwritten in place with
/// other text of the same length (valid after invalid, invalid after valid), so that a cache keyed by where the text
/// lives instead of what it says gives itself away.
fn history_pairs(acc: &mut Acc) {
    let outs: Vec<(i64, u32, u32, i32)> = vec![
        (-1, 0, 0, 0), (0, 0, 0, 0), (-1, 86_399, 0, 0), (-2, 0, 0, 0), (1, 0, 0, 0),
        (16_484, 45_296, 123_400_000, 19_800), (16_484, 45_296, 123_400_000, 20_220), (16_484, 45_296, 0, -11_160), (16_484, 45_296, 0, -10_800),
        (16_484, 45_296, 500_000, 720), (16_484, 45_296, 500_000, -720), (17_166, 86_399, 1_000_000_000, 0), (17_167, 0, 0, 0), (17_166, 86_399, 1_500_000_000, 3600),
    ];
    for &i in &pair_order(outs.len()) {
        let (z, s, f, o) = outs[i];
        output_one(acc, z, s, f, o);
    }
    let texts: [&str; 10] = [
        "2014-02-28T23:59:59+00:00", "2014-02-30T23:59:59+00:00", "2015-02-28T23:59:59+00:00", "2014-02-28T23:59:59-00:30", "2014-02-28 23:59:60+00:00",
        "2014-02-28T23:59:59+00:0x", "2014-02-28T24:00:00+00:00", "2014-02-28t23:59:59z00000", "2016-12-31T23:59:60.5Z000", "2014-02-28T23:59:59.5+0100",
    ];
    let mut buf = String::with_capacity(32);
    for &i in &pair_order(texts.len()) {
        buf.clear();
        buf.push_str(texts[i]);
        accept_one(acc, &buf, false);
    }
}

fn short_strings(acc: &mut Acc, maxlen: usize) {
    let mut cur: Vec<String> = vec![String::new()];
    accept_one(acc, "", false);
    for _ in 0..maxlen {
        let mut nxt = Vec::with_capacity(cur.len() * ALPHA.len());
        for s in &cur {
            for &c in ALPHA {
                let mut t = s.clone();
                t.push(c);
                accept_one(acc, &t, false);
                nxt.push(t);
            }
        }
        cur = nxt;
    }
}

const TEMPLATES: &[&str] = &["2015-02-18T23:16:09Z", "2015-02-18T23:16:09.153+05:30", "0000-01-01t00:00:00-00:00", "9999-12-31 23:59:60.999999999\u{2212}23:59", "2024-02-29T12:00:00.5z", "1999-12-31T23:59:59+23:59"];

fn main() {
    install_panic_hook();
    let args = parse_args();
    let start = Instant::now();
    if let Err(e) = selftest() {
        machinery(&format!("RefCal self-test failed: {}", e));
    }
    // reference reader self-test
    for (s, ok) in [("1996-12-19T16:39:57-08:00", true), ("1990-12-31T23:59:60Z", true), ("1985-04-12t23:20:50.52z", true), ("1937-01-01 12:00:27.87+00:20", true), ("1937-01-01T12:00:27.87+0020", false), ("1937-13-01T12:00:27Z", false), ("2023-02-29T00:00:00Z", false), ("2015-02-18T23:16:09", false)] {
        if rfc3339(s).is_some() != ok {
            machinery(&format!("RefRfc3339 self-test failed on {:?}", s));
        }
    }
    let spec = Spec {
        property: "C10",
        classes: CLASSES,
        required: &["output_ok", "output_z", "output_leap", "output_truncated", "accepted", "rejected", "accepted_latitude", "rejected_value", "rejected_syntax", "edit2_accepted"],
        rule: "output: wall clocks (boundary dates with year 0..=9999 x boundary times incl. leap) x all 2,879 whole-minute offsets (small date set) / boundary offsets (others) x 5 SecondsFormat x use_z, the text must equal the reference rendering, match the grammar and reparse to the same instant (at the printed precision) and offset; input: (1) field sweeps — every year 0..=9999, every month x day 00..99 on 6 years, every hh x mm 00..99 for the time and (with 3 signs) the offset, fraction lengths 0..=20, separator/zulu/offset-shape variants; (2) ALL strings within 2 edits (insert/delete/replace/transpose over a 24-symbol trigger alphabet incl. U+2212, non-ASCII digits and the control bytes that alias ' ', '-', ':', '0', '+' under ASCII case folding (c | 32)) of 6 valid templates; (3) all strings of length <= 3 (4 thorough) over that alphabet; impl Ok(v) iff the reference reader accepts and v is the denoted value; non-trivial = latitude forms, value/syntax rejections, truncation, Z, leap",
        assumptions: &["strings more than 2 edits from a template and longer than the short-string bound are not enumerated", "a second of 60 is read as a leap second on any minute (chrono's documented representation)"],
    };
    let tier = args.tier;
    let dates: Vec<i64> = b_dates(tier).into_iter().filter(|z| (0..=9999).contains(&civil_from_days(*z).0)).collect();
    let small: Vec<i64> = b_dates_small().into_iter().filter(|z| (0..=9999).contains(&civil_from_days(*z).0)).collect();
    let times = b_times_fracs(true);
    let offs_min = b_offsets_minutes();
    let offs_small: Vec<i32> = b_offsets_small().into_iter().filter(|o| o % 60 == 0).collect();
    // edit units: one per (template, first-edit chunk)
    let mut first: Vec<(usize, Vec<char>)> = vec![];
    for (ti, t) in TEMPLATES.iter().enumerate() {
        let base: Vec<char> = t.chars().collect();
        let mut e1 = vec![];
        edits1(&base, &mut e1);
        first.push((ti, base));
        for e in e1 {
            first.push((ti, e));
        }
    }
    const ECHUNK: usize = 64;
    let n_edit = ((first.len() + ECHUNK - 1) / ECHUNK) as u64;
    let nd = dates.len() as u64;
    let only = replay_unit(&args);
    let acc = explore_units(nd + n_edit + 2, CLASSES.len(), only, |u, acc| {
        if u < nd {
            let z = dates[u as usize];
            let is_small = small.binary_search(&z).is_ok();
            for &(s, f) in &times {
                let offs: &[i32] = if is_small && (tier == Tier::Thorough || f % 1_000_000_000 == 500_000_000 || f == 999_999 || s == 86399) { &offs_min } else { &offs_small };
                for &o in offs {
                    output_one(acc, z, s, f, o);
                }
                acc.states += 1;
            }
            acc.traces += 1;
            if u % 173 == 0 {
                acc.sample(|| {
                    let dt = FixedOffset::east_opt(19800).unwrap().from_local_datetime(&mk_ndt(z, 86399, 1_500_000_000)).single();
                    format!("{:?}", dt.map(|d| (d.to_rfc3339(), d.to_rfc3339_opts(SecondsFormat::Micros, true))))
                });
            }
        } else if u < nd + n_edit {
            let i = (u - nd) as usize;
            let mut e2: Vec<Vec<char>> = vec![];
            let mut buf = String::with_capacity(64);
            for (_, e) in &first[i * ECHUNK..((i + 1) * ECHUNK).min(first.len())] {
                buf.clear();
                buf.extend(e.iter());
                accept_one(acc, &buf, false);
                e2.clear();
                edits1(e, &mut e2);
                for x in &e2 {
                    buf.clear();
                    buf.extend(x.iter());
                    accept_one(acc, &buf, true);
                }
                acc.states += 1 + e2.len() as u64;
            }
            acc.traces += 1;
            if i % 97 == 0 {
                acc.sample(|| format!("all 1-edit mutants of {:?} (itself 0-1 edits from template {:?})", first[i * ECHUNK].1.iter().collect::<String>(), TEMPLATES[first[i * ECHUNK].0]));
            }
        } else if u == nd + n_edit {
            field_sweeps(acc);
            acc.traces += 1;
        } else {
            short_strings(acc, if tier == Tier::Thorough { 4 } else { 3 });
            history_pairs(acc);
            acc.traces += 1;
        }
    });
    let extra = Extra {
        bounds: json!({"output_dates": dates.len(), "times": times.len(), "whole_minute_offsets": offs_min.len(), "templates": TEMPLATES, "edit_distance": 2, "edit_alphabet": ALPHA.iter().collect::<String>(), "first_edit_strings": first.len(), "short_string_len": if tier == Tier::Thorough {4} else {3}}),
        exhaustive: false,
        more: vec![],
    };
    finish(&spec, &args, start, acc, extra);
}
