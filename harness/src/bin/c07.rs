//! C07 — time-of-day arithmetic wraps by whole days and honours leap-second operands.
//! Shapes S (all 86,400 seconds) + P (fractions x durations, constructor cube) + H (depth-2 chains).
use chrono::{FixedOffset, NaiveTime, TimeDelta, Timelike};
use chrono_mc::core::*;
use chrono_mc::lattice::*;
use chrono_mc::refcal::*;
use chrono_mc::refleap::{ref_add, ref_diff};
use serde_json::json;
use std::time::Instant;

const CLASSES: &[&str] = &["accepted", "rejected", "leap_accepted", "alias_rejected", "wraps_day", "stays_in_leap", "leaves_leap_forward", "leaves_leap_backward", "diff_counts_leap", "ndt_carry", "ndt_refused", "depth2"];
const ACC_: usize = 0;
const REJ: usize = 1;
const LEAP_ACC: usize = 2;
const ALIAS: usize = 3;
const WRAP: usize = 4;
const STAY: usize = 5;
const FWD: usize = 6;
const BACK: usize = 7;
const DIFFLEAP: usize = 8;
const NDT_CARRY: usize = 9;
const NDT_REF: usize = 10;
const DEPTH2: usize = 11;

const E9: u32 = 1_000_000_000;

/// a time with a leap-second representation on any second
fn mk_t(secs: u32, frac: u32) -> NaiveTime {
    if frac < E9 || secs % 60 == 59 {
        mk_time(secs, frac)
    } else {
        mk_time(secs, 0).with_nanosecond(frac).unwrap_or_else(|| panic!("harness: with_nanosecond({}) refused", frac))
    }
}
fn parts(t: NaiveTime) -> (u32, u32) {
    (t.num_seconds_from_midnight(), t.nanosecond())
}

fn constructors(acc: &mut Acc) {
    let nanos: Vec<u32> = vec![0, 1, 999_999, 1_000_000, 999_999_999, E9, E9 + 1, 1_500_000_000, 1_999_999_999, 2_000_000_000, 2_000_000_001, u32::MAX - 1, u32::MAX, 1 << 31, (1 << 31) + 1];
    let al: Vec<u32> = {
        let mut v = aliases_u32(&[0, 1, 23, 59]);
        v.extend([24, 25, 60, 61, 62, 100, 255, 256, u32::MAX, u32::MAX - 1, 1 << 31]);
        v
    };
    let mut hs: Vec<u32> = (0..=25).collect();
    hs.extend(al.iter());
    let mut ms: Vec<u32> = (0..=61).collect();
    ms.extend(al.iter());
    for &h in &hs {
        for &m in &ms {
            for &s in &ms {
                // keep the cube complete on the small domain and sparse on aliases
                let na = (h > 25) as u32 + (m > 61) as u32 + (s > 61) as u32;
                if na > 1 {
                    continue;
                }
                for &n in &nanos {
                    let ok = h < 24 && m < 60 && s < 60 && (n < E9 || (s == 59 && n < 2 * E9));
                    let got = NaiveTime::from_hms_nano_opt(h, m, s, n);
                    acc.transitions += 1;
                    match (got, ok) {
                        (Some(t), true) => {
                            if (t.hour(), t.minute(), t.second(), t.nanosecond()) != (h, m, s, n) || t.num_seconds_from_midnight() != h * 3600 + m * 60 + s {
                                acc.violation("NaiveTime::from_hms_nano_opt:fields", format!("NaiveTime::from_hms_nano_opt({}, {}, {}, {})", h, m, s, n), format!("{:?}", (h, m, s, n)), format!("{:?}", t));
                            }
                            if n >= E9 {
                                acc.hit_nt(LEAP_ACC)
                            } else {
                                acc.hit(ACC_)
                            }
                        }
                        (None, false) => {
                            if na > 0 {
                                acc.hit_nt(ALIAS)
                            } else {
                                acc.hit_nt(REJ)
                            }
                        }
                        (g, _) => acc.violation("NaiveTime::from_hms_nano_opt", format!("NaiveTime::from_hms_nano_opt({}, {}, {}, {})", h, m, s, n), if ok { "Some".into() } else { "None".to_string() }, format!("{:?}", g)),
                    }
                }
                if h <= 24 && m % 7 == 0 || na > 0 {
                    // from_hms_opt, milli, micro (overflowing multiplication must refuse, not wrap)
                    let base_ok = h < 24 && m < 60 && s < 60;
                    acc.transitions += 1;
                    if NaiveTime::from_hms_opt(h, m, s).is_some() != base_ok {
                        acc.violation("NaiveTime::from_hms_opt", format!("NaiveTime::from_hms_opt({}, {}, {})", h, m, s), format!("{}", base_ok), format!("{:?}", NaiveTime::from_hms_opt(h, m, s)));
                    }
                    #[allow(deprecated)]
                    {
                        // the deprecated panicking forms: the same value, or a panic exactly where the _opt form says None
                        acc.transitions += 2;
                        let a = guard(|| NaiveTime::from_hms(h, m, s)).ok();
                        let b = guard(|| NaiveTime::from_hms_nano(h, m, s, 1_500_000_000)).ok();
                        if a != NaiveTime::from_hms_opt(h, m, s) || b != NaiveTime::from_hms_nano_opt(h, m, s, 1_500_000_000) || a.is_some() != base_ok || b.is_some() != (base_ok && s == 59) {
                            acc.violation("NaiveTime::from_hms (deprecated forms)", format!("NaiveTime::from_hms({}, {}, {}) / from_hms_nano(.., 1500000000)", h, m, s), format!("{:?} / {:?}", NaiveTime::from_hms_opt(h, m, s), NaiveTime::from_hms_nano_opt(h, m, s, 1_500_000_000)), format!("{:?} / {:?}", a, b));
                        }
                    }
                    for &x in &[0u32, 1, 999, 1000, 1001, 1999, 2000, 4294, 4295, 4296, 999_999, 1_000_000, 1_999_999, 2_000_000, 4_294_967, 4_294_968, 4_294_967_295, 4_294_967_294, 1 << 31, 4_295_000, 4_296_000, 8_590] {
                        for (name, mul) in [("milli", 1_000_000u64), ("micro", 1_000u64)] {
                            let n = x as u64 * mul;
                            let ok = base_ok && (n < E9 as u64 || (s == 59 && n < 2 * E9 as u64));
                            let got = if mul == 1_000_000 { NaiveTime::from_hms_milli_opt(h, m, s, x) } else { NaiveTime::from_hms_micro_opt(h, m, s, x) };
                            acc.transitions += 1;
                            match (got, ok) {
                                (Some(t), true) if (t.hour(), t.minute(), t.second(), t.nanosecond() as u64) == (h, m, s, n) => acc.hit(ACC_),
                                (None, false) => acc.hit_nt(REJ),
                                (g, _) => acc.violation(&format!("NaiveTime::from_hms_{}_opt", name), format!("NaiveTime::from_hms_{}_opt({}, {}, {}, {})", name, h, m, s, x), if ok { format!("Some with nanosecond {}", n) } else { "None".into() }, format!("{:?}", g)),
                            }
                            if h < 24 && m == 0 && (s == 59 || s == 0 || s == 60) {
                                #[allow(deprecated)]
                                let dep = guard(|| if mul == 1_000_000 { NaiveTime::from_hms_milli(h, m, s, x) } else { NaiveTime::from_hms_micro(h, m, s, x) }).ok();
                                acc.transitions += 1;
                                if dep != got {
                                    acc.violation("NaiveTime::from_hms_milli/micro (deprecated forms)", format!("NaiveTime::from_hms_{}({}, {}, {}, {})", name, h, m, s, x), format!("{:?}", got), format!("{:?}", dep));
                                }
                            }
                        }
                    }
                }
            }
        }
    }
    // from_num_seconds_from_midnight_opt: all secs 0..=86_500 + aliases x nano lattice
    let mut secs: Vec<u32> = (0..=86_500).collect();
    secs.extend([u32::MAX, u32::MAX - 1, 1 << 31, 86_400 + (1 << 16), (1 << 17) + 59, 172_799, 172_800]);
    for &s in &secs {
        for &n in &nanos {
            let ok = s < 86_400 && (n < E9 || (s % 60 == 59 && n < 2 * E9));
            let got = NaiveTime::from_num_seconds_from_midnight_opt(s, n);
            acc.transitions += 1;
            match (got, ok) {
                (Some(t), true) if parts(t) == (s, n) && (t.hour(), t.minute(), t.second()) == (s / 3600, s / 60 % 60, s % 60) => acc.hit(ACC_),
                (None, false) => acc.hit_nt(REJ),
                (g, _) => acc.violation("NaiveTime::from_num_seconds_from_midnight_opt", format!("NaiveTime::from_num_seconds_from_midnight_opt({}, {})", s, n), if ok { "Some".into() } else { "None".to_string() }, format!("{:?}", g)),
            }
            if ok || s % 3600 == 0 || s > 86_400 {
                #[allow(deprecated)]
                let dep = guard(|| NaiveTime::from_num_seconds_from_midnight(s, n)).ok();
                acc.transitions += 1;
                if dep != got {
                    acc.violation("NaiveTime::from_num_seconds_from_midnight (deprecated form)", format!("NaiveTime::from_num_seconds_from_midnight({}, {})", s, n), format!("{:?}", got), format!("{:?}", dep));
                }
            }
        }
    }
}

fn replace_fields(acc: &mut Acc, s: u32, fracs: &[u32], args: &[u32]) {
    for &f in fracs {
        let t = mk_t(s, f);
        let (h, m, sec) = (s / 3600, s / 60 % 60, s % 60);
        acc.transitions += 1;
        let h12 = t.hour12();
        if h12 != (h >= 12, if h % 12 == 0 { 12 } else { h % 12 }) {
            acc.violation("NaiveTime::hour12", format!("{:?}.hour12()", t), format!("{:?}", (h >= 12, if h % 12 == 0 { 12 } else { h % 12 })), format!("{:?}", h12));
        }
        for &a in args {
            let exp = |ok: bool, ns: u32, nf: u32| if ok { Some((ns, nf)) } else { None };
            let cases: [(&str, Option<NaiveTime>, Option<(u32, u32)>); 4] = [
                ("with_hour", t.with_hour(a), exp(a < 24, (a % 24) * 3600 + m * 60 + sec, f)),
                ("with_minute", t.with_minute(a), exp(a < 60, h * 3600 + (a % 60) * 60 + sec, f)),
                ("with_second", t.with_second(a), exp(a < 60, h * 3600 + m * 60 + a % 60, f)),
                ("with_nanosecond", t.with_nanosecond(a), exp(a < 2 * E9, s, a)),
            ];
            for (name, got, want) in cases {
                acc.transitions += 1;
                if got.map(parts) != want {
                    acc.violation(&format!("NaiveTime::{}", name), format!("{:?}.{}({})", t, name, a), format!("{:?}", want), format!("{:?}", got));
                } else if want.is_none() {
                    acc.hit_nt(REJ);
                } else {
                    acc.hit(ACC_);
                }
            }
        }
    }
}

fn add_all(acc: &mut Acc, s: u32, fracs: &[u32], durs: &[i128], depth2: bool) {
    for &f in fracs {
        let t = mk_t(s, f);
        for &d in durs {
            let td = mk_delta(d);
            let (want, carry, cls) = ref_add(s, f, d);
            let (got, gc) = t.overflowing_add_signed(td);
            acc.transitions += 1;
            if (parts(got), gc) != (want, carry) {
                acc.violation("NaiveTime::overflowing_add_signed", format!("NaiveTime(sec {} frac {}).overflowing_add_signed(TimeDelta({} ns))", s, f, d), format!("(sec {} frac {}, carry {} s)", want.0, want.1, carry), format!("({:?} = sec {} frac {}, carry {})", got, parts(got).0, parts(got).1, gc));
                continue;
            }
            if cls != usize::MAX {
                acc.hit_nt(cls);
            }
            // subtraction = addition of the negated duration, carry reported with the opposite sign
            let (want2, carry2, _) = ref_add(s, f, -d);
            let (got2, gc2) = t.overflowing_sub_signed(td);
            acc.transitions += 3;
            if (parts(got2), gc2) != (want2, -carry2) {
                acc.violation("NaiveTime::overflowing_sub_signed", format!("NaiveTime(sec {} frac {}).overflowing_sub_signed(TimeDelta({} ns))", s, f, d), format!("(sec {} frac {}, carry {} s)", want2.0, want2.1, -carry2), format!("({:?}, carry {})", got2, gc2));
            }
            if t + td != got || t - td != got2 {
                acc.violation("NaiveTime:operators", format!("NaiveTime(sec {} frac {}) +/- TimeDelta({} ns)", s, f, d), format!("{:?} / {:?}", got, got2), format!("{:?} / {:?}", t + td, t - td));
            }
            // sibling forms: assign operators, std::time::Duration operands (non-negative durations)
            let (mut x, mut y) = (t, t);
            x += td;
            y -= td;
            acc.transitions += 2;
            if x != got || y != got2 {
                acc.violation("NaiveTime:assign-operators", format!("x = NaiveTime(sec {} frac {}); x += / -= TimeDelta({} ns)", s, f, d), format!("{:?} / {:?}", got, got2), format!("{:?} / {:?}", x, y));
            }
            if d >= 0 {
                let sd = std::time::Duration::new((d / NS) as u64, (d % NS) as u32);
                let (mut x, mut y) = (t, t);
                x += sd;
                y -= sd;
                acc.transitions += 4;
                if t + sd != got || x != got {
                    acc.violation("NaiveTime:add-std-Duration", format!("NaiveTime(sec {} frac {}) + std Duration({} ns) [operator / assign operator]", s, f, d), format!("{:?} = (sec, frac) {:?}, as for + TimeDelta", got, parts(got)), format!("{:?} / {:?}", parts(t + sd), parts(x)));
                }
                if t - sd != got2 || y != got2 {
                    acc.violation("NaiveTime:sub-std-Duration", format!("NaiveTime(sec {} frac {}) - std Duration({} ns) [operator / assign operator]", s, f, d), format!("{:?} = (sec, frac) {:?}, as for - TimeDelta", got2, parts(got2)), format!("{:?} / {:?}", parts(t - sd), parts(y)));
                }
            }
            if depth2 && d.abs() < 3 * NS {
                // leave the leap second and come back (or the reverse): a second step from the result
                for &d2 in &[-d, NS, -NS, 500_000_000, -500_000_000, 1, -1] {
                    let (w, c, _) = ref_add(want.0, want.1, d2);
                    let (g, gc) = got.overflowing_add_signed(mk_delta(d2));
                    acc.transitions += 1;
                    if (parts(g), gc) != (w, c) {
                        acc.violation("NaiveTime::overflowing_add_signed:chain", format!("NaiveTime(sec {} frac {}) + {} ns then + {} ns", s, f, d, d2), format!("(sec {} frac {}, carry {})", w.0, w.1, c), format!("({:?}, carry {})", g, gc));
                    }
                    acc.hit(DEPTH2);
                }
            }
        }
    }
}

/// std::time::Duration operands over the whole u64 seconds lattice ("wraps around, ignores whole days" has no upper limit)
fn std_durations(acc: &mut Acc, tl: &[(u32, u32)]) {
    let mut secs: Vec<u64> = lat_u64();
    for k in [86_400u64, 172_800, 604_800] {
        for m in [1u64, 2, 3, 800, 1 << 20, (u64::MAX / k) - 1, u64::MAX / k] {
            for d in [0u64, 1, 86_399] {
                secs.push((k * m).saturating_add(d));
                secs.push((k * m).saturating_sub(d));
            }
        }
    }
    secs.extend([u64::MAX, u64::MAX - 1, 1 << 63, (1 << 63) - 1, (1 << 63) + 86_400, i64::MAX as u64 + 2, 1 << 32, (1 << 32) + 86_399, 9_223_372_036_854_775]);
    secs.sort();
    secs.dedup();
    for &(s, f) in tl {
        let t = mk_t(s, f);
        for &ds in &secs {
            for dn in [0u32, 1, 400_000_000, 999_999_999] {
                let sd = std::time::Duration::new(ds, dn);
                let d = ds as i128 * NS + dn as i128;
                let (wa, _, _) = ref_add(s, f, d);
                let (wb, _, _) = ref_add(s, f, -d);
                acc.transitions += 4;
                let got = guard(|| {
                    let (mut x, mut y) = (t, t);
                    x += sd;
                    y -= sd;
                    (parts(t + sd), parts(t - sd), parts(x), parts(y))
                });
                if got != Ok((wa, wb, wa, wb)) {
                    acc.violation("NaiveTime:std-Duration-lattice", format!("NaiveTime(sec {} frac {}) + / - / += / -= std Duration({} s {} ns)", s, f, ds, dn), format!("{:?}", (wa, wb, wa, wb)), format!("{:?}", got));
                }
            }
        }
    }
}

/// Histories of length two (and the a-b / b-a / a-b triple) on one thread over times that could share a slot of a
/// hidden cache: equal seconds modulo 2^16, a leap second and the second after it, the same fields in another order.
fn history_pairs(acc: &mut Acc) {
    let ts: Vec<(u32, u32)> = vec![(3600, 0), (69_136, 0), (3601, 1), (86_399, 1_500_000_000), (0, 500_000_000), (86_399, 500_000_000), (11_159, 1_300_000_000), (11_159, 300_000_000), (43_200, 0), (43_200 + 16_384, 0)];
    let durs: Vec<i128> = vec![250_000_000, 86_400 * NS, 0, 700_000_000, NS, -NS, 172_800 * NS, 86_400 * NS + 250_000_000];
    for &i in &pair_order(ts.len()) {
        let (s, f) = ts[i];
        let t = mk_t(s, f);
        acc.transitions += 1;
        let got = (t.hour(), t.minute(), t.second(), t.nanosecond(), t.num_seconds_from_midnight(), t.hour12());
        let h = s / 3600;
        let want = (h, s / 60 % 60, s % 60, f, s, (h >= 12, if h % 12 == 0 { 12 } else { h % 12 }));
        if got != want {
            acc.violation("NaiveTime:accessors:history", format!("accessors of NaiveTime(sec {} frac {}) after another time was read", s, f), format!("{:?}", want), format!("{:?}", got));
        }
        add_all(acc, s, &[f], &durs, false);
    }
    for a in 0..ts.len() {
        for b in 0..ts.len() {
            let (ta, tb) = (mk_t(ts[a].0, ts[a].1), mk_t(ts[b].0, ts[b].1));
            let want = ref_diff(ts[a], ts[b]);
            acc.transitions += 3;
            let got = [delta_ns(ta - tb), delta_ns(tb - ta), delta_ns(ta - tb), delta_ns(ta.signed_duration_since(tb))];
            if got != [want, -want, want, want] {
                acc.violation("NaiveTime:difference:history", format!("a - b, b - a, a - b with a = (sec {} frac {}), b = (sec {} frac {})", ts[a].0, ts[a].1, ts[b].0, ts[b].1), format!("{:?}", [want, -want, want, want]), format!("{:?}", got));
            }
        }
    }
}

fn offsets(acc: &mut Acc, s: u32, fracs: &[u32], offs: &[i32]) {
    for &f in fracs {
        let t = mk_t(s, f);
        for &o in offs {
            let fo = FixedOffset::east_opt(o).unwrap();
            let a = t + fo;
            let b = t - fo;
            acc.transitions += 2;
            let wa = ((s as i64 + o as i64).rem_euclid(86400) as u32, f);
            let wb = ((s as i64 - o as i64).rem_euclid(86400) as u32, f);
            if parts(a) != wa || parts(b) != wb {
                acc.violation("NaiveTime+FixedOffset", format!("NaiveTime(sec {} frac {}) +/- FixedOffset({})", s, f, o), format!("{:?} / {:?}", wa, wb), format!("{:?} / {:?}", parts(a), parts(b)));
            }
        }
    }
}

fn diffs(acc: &mut Acc, a: (u32, u32), others: &[(u32, u32)]) {
    let ta = mk_t(a.0, a.1);
    for &b in others {
        let tb = mk_t(b.0, b.1);
        let want = ref_diff(a, b);
        let got = ta.signed_duration_since(tb);
        let rev = tb.signed_duration_since(ta);
        acc.transitions += 3;
        if delta_ns(got) != want {
            acc.violation("NaiveTime::signed_duration_since", format!("NaiveTime(sec {} frac {}).signed_duration_since(NaiveTime(sec {} frac {}))", a.0, a.1, b.0, b.1), format!("{} ns", want), format!("{:?} = {} ns", got, delta_ns(got)));
        }
        if delta_ns(rev) != -delta_ns(got) {
            acc.violation("NaiveTime::signed_duration_since:antisymmetry", format!("(a - b) vs (b - a), a = (sec {} frac {}), b = (sec {} frac {})", a.0, a.1, b.0, b.1), format!("{} ns", -delta_ns(got)), format!("{} ns", delta_ns(rev)));
        }
        if (ta - tb) != got {
            acc.violation("NaiveTime:sub-operator", format!("NaiveTime(sec {} frac {}) - NaiveTime(sec {} frac {})", a.0, a.1, b.0, b.1), format!("{:?}", got), format!("{:?}", ta - tb));
        }
        if (a.1 >= E9 && a.0 < b.0) || (b.1 >= E9 && b.0 < a.0) {
            acc.hit_nt(DIFFLEAP);
        }
    }
}

fn ndt_leap(acc: &mut Acc, z: i64, durs: &[i128]) {
    for &s in &[59u32, 3599, 43199, 86399, 86340 + 59] {
        for &f in &[E9, E9 + 1, 1_500_000_000, 1_999_999_999] {
            let t = mk_date(z).and_time(mk_t(s, f));
            for &d in durs {
                let td = mk_delta(d);
                for neg in [false, true] {
                    let dd = if neg { -d } else { d };
                    let (wt, carry, _) = ref_add(s, f, dd);
                    let tz = z as i128 + (carry / 86400) as i128;
                    let ok = tz >= MIN_DAY as i128 && tz <= MAX_DAY as i128;
                    let got = if neg { t.checked_sub_signed(td) } else { t.checked_add_signed(td) };
                    acc.transitions += 3;
                    let op = guard(|| if neg { t - td } else { t + td }).ok();
                    let asg = guard(|| {
                        let mut x = t;
                        if neg {
                            x -= td
                        } else {
                            x += td
                        }
                        x
                    })
                    .ok();
                    if d >= 0 {
                        let sd = std::time::Duration::new((d / NS) as u64, (d % NS) as u32);
                        acc.transitions += 1;
                        let ops = guard(|| if neg { t - sd } else { t + sd }).ok();
                        if ops != got {
                            acc.violation("NaiveDateTime:std-Duration:leap", format!("{:?} {} std Duration({} ns)", t, if neg { "-" } else { "+" }, d), format!("{:?}", got), format!("{:?}", ops));
                        }
                    }
                    if op != got || asg != got {
                        acc.violation("NaiveDateTime:operators:leap", format!("{:?} {} TimeDelta({} ns) [operator / assign operator]", t, if neg { "-" } else { "+" }, d), format!("{:?}", got), format!("{:?} / {:?}", op, asg));
                    }
                    match (got, ok) {
                        (Some(r), true) if ndt_parts(r) == (tz as i64, wt.0, wt.1) => {
                            if carry != 0 {
                                acc.hit_nt(NDT_CARRY);
                            }
                            // distance back (leap-aware): r - t
                            acc.transitions += 1;
                            let dist = r.signed_duration_since(t);
                            let want = (tz - z as i128) * DAY_NS + ref_diff(wt, (s, f));
                            if delta_ns(dist) != want {
                                acc.violation("NaiveDateTime::signed_duration_since:leap", format!("{:?}.signed_duration_since({:?})", r, t), format!("{} ns", want), format!("{} ns", delta_ns(dist)));
                            }
                        }
                        (None, false) => acc.hit_nt(NDT_REF),
                        (g, _) => acc.violation("NaiveDateTime::checked_add_signed:leap", format!("{:?}.{}(TimeDelta({} ns))", t, if neg { "checked_sub_signed" } else { "checked_add_signed" }, d), if ok { format!("day {} sec {} frac {}", tz, wt.0, wt.1) } else { "None".into() }, format!("{:?}", g)),
                    }
                }
            }
        }
    }
}

/// the literal examples of the NaiveTime documentation, asserted against the reference at start-up
fn ref_selftest() -> Result<(), String> {
    let hmsm = |h: u32, m: u32, s: u32, ms: u32| (h * 3600 + m * 60 + s, ms * 1_000_000);
    let ms = 1_000_000i128;
    let cases: Vec<((u32, u32), i128, (u32, u32), i64)> = vec![
        (hmsm(3, 5, 7, 0), 0, hmsm(3, 5, 7, 0), 0),
        (hmsm(3, 5, 7, 0), NS, hmsm(3, 5, 8, 0), 0),
        (hmsm(3, 5, 7, 0), -NS, hmsm(3, 5, 6, 0), 0),
        (hmsm(3, 5, 7, 0), 60 * NS + 4 * NS, hmsm(3, 6, 11, 0), 0),
        (hmsm(3, 5, 7, 0), 7 * 3600 * NS + 7 * 60 * NS + 7 * NS, hmsm(10, 12, 14, 0), 0),
        (hmsm(3, 5, 7, 0), 80 * ms, hmsm(3, 5, 7, 80), 0),
        (hmsm(3, 5, 7, 950), 280 * ms, hmsm(3, 5, 8, 230), 0),
        (hmsm(3, 5, 7, 950), -980 * ms, hmsm(3, 5, 6, 970), 0),
        (hmsm(3, 5, 7, 0), 22 * 3600 * NS, hmsm(1, 5, 7, 0), 86400),
        (hmsm(3, 5, 7, 0), -8 * 3600 * NS, hmsm(19, 5, 7, 0), -86400),
        (hmsm(3, 5, 7, 0), 800 * 86400 * NS, hmsm(3, 5, 7, 0), 800 * 86400),
        // leap second examples of the `+` documentation
        (hmsm(3, 5, 59, 1300), 0, hmsm(3, 5, 59, 1300), 0),
        (hmsm(3, 5, 59, 1300), -500 * ms, hmsm(3, 5, 59, 800), 0),
        (hmsm(3, 5, 59, 1300), 500 * ms, hmsm(3, 5, 59, 1800), 0),
        (hmsm(3, 5, 59, 1300), 800 * ms, hmsm(3, 6, 0, 100), 0),
        (hmsm(3, 5, 59, 1300), 10 * NS, hmsm(3, 6, 9, 300), 0),
        (hmsm(3, 5, 59, 1300), -10 * NS, hmsm(3, 5, 50, 300), 0),
        (hmsm(3, 5, 59, 1300), 86400 * NS, hmsm(3, 5, 59, 300), 86400),
    ];
    for (t, d, w, c) in cases {
        let (r, carry, _) = ref_add(t.0, t.1, d);
        if r != w || carry != c {
            return Err(format!("RefLeapTime disagrees with a documented example: {:?} + {} -> {:?},{} (docs {:?},{})", t, d, r, carry, w, c));
        }
    }
    let dcases: Vec<((u32, u32), (u32, u32), i128)> = vec![
        (hmsm(3, 0, 59, 1000), hmsm(3, 0, 59, 0), NS),
        (hmsm(3, 0, 59, 1500), hmsm(3, 0, 59, 0), 1500 * ms),
        (hmsm(3, 0, 59, 1000), hmsm(3, 0, 0, 0), 60 * NS),
        (hmsm(3, 0, 0, 0), hmsm(2, 59, 59, 1000), NS),
        (hmsm(3, 0, 59, 1000), hmsm(2, 59, 59, 1000), 61 * NS),
    ];
    for (a, b, w) in dcases {
        if ref_diff(a, b) != w {
            return Err(format!("RefLeapTime difference disagrees with a documented example: {:?} - {:?} = {} (docs {})", a, b, ref_diff(a, b), w));
        }
    }
    Ok(())
}

fn main() {
    install_panic_hook();
    let args = parse_args();
    let start = Instant::now();
    if let Err(e) = selftest().and_then(|_| ref_selftest()) {
        machinery(&format!("reference self-test failed: {}", e));
    }
    let spec = Spec {
        property: "C07",
        classes: CLASSES,
        required: &["accepted", "rejected", "leap_accepted", "alias_rejected", "wraps_day", "stays_in_leap", "leaves_leap_forward", "leaves_leap_backward", "diff_counts_leap", "ndt_carry", "ndt_refused", "depth2"],
        rule: "constructor cube h 0..=25 x m,s 0..=61 x nanosecond lattice (+ alias arguments, milli/micro overflow); from_num_seconds_from_midnight_opt for every secs 0..=86,500; every second of the day x fractions (6 plain, 4 leap) x every replacement argument 0..=61 + lattice for with_hour/minute/second/nanosecond; every second x fractions x duration alphabet through overflowing_add_signed / overflowing_sub_signed / + / - against the extended-time-line reference, with a second step from results of short durations (depth 2: leave the leap second and come back); + / - FixedOffset keep the fraction; differences: all pairs of a time lattice, antisymmetry; NaiveDateTime with leap operands over boundary dates with the carry applied to the date; non-trivial = rejection, wrap, stay in / leave the leap second, difference across a leap second, date carry/refusal",
        assumptions: &["the leap-second model is the documented one (each operand's leap second is the only one there is); its 23 documented examples are asserted against the reference at start-up", "nanosecond fields between lattice members rely on uniformity between the bracketed carries (0, 1e9, 2e9)"],
    };
    let tier = args.tier;
    let mut durs = b_durs();
    for x in [100_000_000i128, 300_000_000, 500_000_000, 999_999_999, 1_500_000_000, 2 * NS - 1, 2 * NS, 2 * NS + 1, 3 * NS, 86399 * NS + 999_999_999, 43200 * NS, DAY_NS + 500_000_000, DAY_NS + 999_999_999, DAY_NS - 500_000_000, DAY_NS + NS + 1, 2 * DAY_NS + 500_000_000, 86399 * NS + 500_000_000] {
        durs.push(x);
        durs.push(-x);
    }
    durs.sort();
    durs.dedup();
    let durs_quick: Vec<i128> = durs.iter().cloned().filter(|d| d.abs() <= 3 * DAY_NS || d.abs() >= MAX_DELTA - NS || d.abs() % (146097 * DAY_NS) == 0).collect();
    if tier == Tier::Thorough {
        for k in 1..=20i128 {
            for x in [k * 100_000_000, k * 100_000_000 + 1, k * 100_000_000 - 1] {
                durs.push(x);
                durs.push(-x);
            }
        }
        durs.sort();
        durs.dedup();
    }
    let durs_used: &Vec<i128> = &durs;
    let mut fracs: Vec<u32> = vec![0, 1, 999_999, 500_000_000, 700_000_000, 999_999_999, E9, E9 + 1, 1_500_000_000, 1_900_000_000, 1_999_999_999];
    if tier == Tier::Thorough {
        for k in 1..20u32 {
            fracs.extend([k * 100_000_000, k * 100_000_000 + 1, k * 100_000_000 - 1]);
        }
        fracs.sort();
        fracs.dedup();
    }
    let mut args_l: Vec<u32> = (0..=61).collect();
    args_l.extend(aliases_u32(&[0, 1, 23, 59]));
    args_l.extend([u32::MAX, u32::MAX - 1, 1 << 31, E9 - 1, E9, 2 * E9 - 1, 2 * E9, 2 * E9 + 1, 86399, 86400]);
    args_l.sort();
    args_l.dedup();
    let offs = b_offsets_small();
    // time lattice for differences
    let mut tl: Vec<(u32, u32)> = vec![];
    for s in [0u32, 1, 58, 59, 60, 61, 3598, 3599, 3600, 43199, 43200, 86340, 86398, 86399] {
        for &f in &fracs {
            tl.push((s, f));
        }
    }
    let bd = b_dates_small();
    let only = replay_unit(&args);
    const SECS_PER_UNIT: u32 = 300;
    let nsec_units = (86400 / SECS_PER_UNIT) as u64;
    let acc = explore_units(nsec_units + 2 + bd.len() as u64, CLASSES.len(), only, |u, acc| {
        if u < nsec_units {
            let s0 = u as u32 * SECS_PER_UNIT;
            for s in s0..s0 + SECS_PER_UNIT {
                acc.states += fracs.len() as u64;
                let near_minute = s % 60 >= 58 || s % 60 <= 1;
                let full = true;
                add_all(acc, s, &fracs, if full { durs_used } else { &durs_quick }, near_minute);
                if full {
                    replace_fields(acc, s, &[0, 999_999_999, E9, 1_999_999_999], &args_l);
                    offsets(acc, s, &[0, 1, 999_999_999, 1_500_000_000], &offs);
                } else {
                    replace_fields(acc, s, &[1, 1_500_000_000], &[0, 12, 23, 24, 59, 60]);
                }
                // every second against the lattice
                diffs(acc, (s, 0), &tl);
                diffs(acc, (s, 1_200_000_000), &tl);
            }
            acc.traces += 1;
            if u % 59 == 0 {
                acc.sample(|| format!("seconds {}..{} x fractions {:?} x {} durations (add, sub, operators, second step from short results)", s0, s0 + SECS_PER_UNIT, fracs, durs_used.len()));
            }
        } else if u == nsec_units {
            constructors(acc);
            acc.traces += 1;
        } else if u == nsec_units + 1 {
            for &a in &tl {
                diffs(acc, a, &tl);
            }
            std_durations(acc, &tl);
            history_pairs(acc);
            acc.traces += 1;
        } else {
            ndt_leap(acc, bd[(u - nsec_units - 2) as usize], &durs);
            acc.traces += 1;
        }
    });
    let _ = TimeDelta::zero();
    let extra = Extra {
        bounds: json!({"seconds": 86400, "fractions": fracs, "durations": durs.len(), "durations_quick_subset": durs_quick.len(), "replacement_arguments": args_l.len(), "time_lattice_for_differences": tl.len(), "boundary_dates_for_datetime": bd.len(), "depth": 2}),
        exhaustive: false,
        more: vec![("exhaustive_over".into(), json!("all 86,400 seconds of the day (each with the listed fractions)"))],
    };
    finish(&spec, &args, start, acc, extra);
}
