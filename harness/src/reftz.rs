//! RefTz / RefTzif / RefPosix: reference time zone model, independent TZif (RFC 8536) writer and
//! reader, POSIX TZ rule writer / reader / evaluator. Never calls chrono.
//! Wall-clock lookups are answered by brute-force inversion of `offset_at` — no gap/fold case analysis.
use crate::refcal::*;

#[derive(Clone, Debug, PartialEq, Eq)]
pub struct RefType {
    pub off: i32,
    pub dst: bool,
    pub abbr: String,
}

#[derive(Clone, Copy, Debug, PartialEq, Eq)]
pub enum RuleDay {
    /// Jn: 1..=365, 29 February never counted
    J1(u16),
    /// n: 0..=365, 29 February counted
    J0(u16),
    /// Mm.w.d: d 0 = Sunday, w 5 = last
    M { m: u8, w: u8, d: u8 },
}

#[derive(Clone, Debug, PartialEq, Eq)]
pub struct RefDst {
    pub ty: RefType,
    pub start: RuleDay,
    pub start_time: i32,
    pub end: RuleDay,
    pub end_time: i32,
}

#[derive(Clone, Debug, PartialEq, Eq)]
pub struct RefRule {
    pub std: RefType,
    pub dst: Option<RefDst>,
}

#[derive(Clone, Debug, PartialEq, Eq)]
pub struct RefZone {
    /// (unix time, type index), strictly ascending
    pub trans: Vec<(i64, usize)>,
    pub types: Vec<RefType>,
    pub rule: Option<RefRule>,
}

impl RuleDay {
    /// day number (days since 1970-01-01) of the rule day in year y
    pub fn day(&self, y: i64) -> i64 {
        match *self {
            RuleDay::J1(n) => {
                let n = n as i64;
                // day n of a non-leap year; in leap years days after 28 Feb shift by one
                let base = days_from_civil(y, 1, 1) + n - 1;
                if is_leap(y) && n >= 60 {
                    base + 1
                } else {
                    base
                }
            }
            RuleDay::J0(n) => days_from_civil(y, 1, 1) + n as i64,
            RuleDay::M { m, w, d } => {
                let first = days_from_civil(y, m as u32, 1);
                let wd_first_sun0 = (weekday_from_days(first) as i64 + 1) % 7;
                let mut day = first + (d as i64 - wd_first_sun0).rem_euclid(7) + 7 * (w as i64 - 1);
                let last = first + days_in_month(y, m as u32) as i64 - 1;
                while day > last {
                    day -= 7;
                }
                day
            }
        }
    }
}

impl RefRule {
    /// transition instants of year y: (dst starts at, dst ends at)
    pub fn year_transitions(&self, y: i64) -> Option<(i64, i64)> {
        let d = self.dst.as_ref()?;
        let s = d.start.day(y) * 86400 + d.start_time as i64 - self.std.off as i64;
        let e = d.end.day(y) * 86400 + d.end_time as i64 - d.ty.off as i64;
        Some((s, e))
    }
    pub fn offset_at(&self, t: i64) -> i32 {
        let Some(d) = self.dst.as_ref() else { return self.std.off };
        let (y, _, _) = civil_from_days(t.div_euclid(86400));
        // the latest transition at or before t among the years around t decides
        let mut best: Option<(i64, bool)> = None;
        for yy in [y - 1, y, y + 1] {
            let (s, e) = self.year_transitions(yy).unwrap();
            for (at, is_start) in [(s, true), (e, false)] {
                if at <= t && best.map_or(true, |(b, _)| at > b || (at == b && !is_start)) {
                    best = Some((at, is_start));
                }
            }
        }
        match best {
            Some((_, true)) => d.ty.off,
            _ => self.std.off,
        }
    }
    pub fn offsets(&self) -> Vec<i32> {
        let mut v = vec![self.std.off];
        if let Some(d) = &self.dst {
            v.push(d.ty.off);
        }
        v
    }
}

impl RefZone {
    pub fn offset_at(&self, t: i64) -> i32 {
        match self.trans.last() {
            None => match &self.rule {
                Some(r) => r.offset_at(t),
                None => self.types[0].off,
            },
            Some(&(last_t, last_ty)) => {
                if t >= last_t {
                    match &self.rule {
                        Some(r) => r.offset_at(t),
                        None => self.types[last_ty].off,
                    }
                } else {
                    // the last transition at or before t; the first type before the first transition
                    let idx = self.trans.partition_point(|&(tt, _)| tt <= t);
                    if idx == 0 {
                        self.types[0].off
                    } else {
                        self.types[self.trans[idx - 1].1].off
                    }
                }
            }
        }
    }
    pub fn offsets(&self) -> Vec<i32> {
        let mut v: Vec<i32> = self.types.iter().map(|t| t.off).collect();
        if let Some(r) = &self.rule {
            v.extend(r.offsets());
        }
        v.sort();
        v.dedup();
        v
    }
    /// all instants whose wall clock reading is `wall` (seconds since the epoch read as local), ascending
    pub fn instants_of_wall(&self, wall: i64) -> Vec<i64> {
        let mut v: Vec<i64> = self.offsets().into_iter().filter_map(|o| wall.checked_sub(o as i64).filter(|t| self.offset_at(*t) == o)).collect();
        v.sort();
        v.dedup();
        v
    }
    /// table transitions plus the rule transitions of the years around `t`
    pub fn transitions_near(&self, years: &[i64]) -> Vec<(i64, i32, i32)> {
        // (instant, offset before, offset after)
        let mut v = vec![];
        for (i, &(t, ty)) in self.trans.iter().enumerate() {
            let before = if i == 0 { self.types[0].off } else { self.types[self.trans[i - 1].1].off };
            v.push((t, before, self.types[ty].off));
        }
        if let Some(r) = &self.rule {
            if let Some(d) = &r.dst {
                let last = self.trans.last().map(|x| x.0).unwrap_or(i64::MIN);
                for &y in years {
                    let (s, e) = r.year_transitions(y).unwrap();
                    if s >= last {
                        v.push((s, r.std.off, d.ty.off));
                    }
                    if e >= last {
                        v.push((e, d.ty.off, r.std.off));
                    }
                }
            }
        }
        v
    }
}

// ---------------------------------------------------------------------------------------------
// the derived `Debug` rendering chrono gives a zone (field names as in tz_info), built from the model

fn dbg_type(t: &RefType) -> String {
    let name = if t.abbr.is_empty() { "None".to_string() } else { format!("Some({:?})", t.abbr) };
    format!("LocalTimeType {{ ut_offset: {}, is_dst: {}, name: {} }}", t.off, t.dst, name)
}
fn dbg_day(d: &RuleDay) -> String {
    match d {
        RuleDay::J1(n) => format!("Julian1WithoutLeap({})", n),
        RuleDay::J0(n) => format!("Julian0WithLeap({})", n),
        RuleDay::M { m, w, d } => format!("MonthWeekday {{ month: {}, week: {}, week_day: {} }}", m, w, d),
    }
}
impl RefRule {
    pub fn debug_string(&self) -> String {
        match &self.dst {
            None => format!("Fixed({})", dbg_type(&self.std)),
            Some(d) => format!(
                "Alternate(AlternateTime {{ std: {}, dst: {}, dst_start: {}, dst_start_time: {}, dst_end: {}, dst_end_time: {} }})",
                dbg_type(&self.std), dbg_type(&d.ty), dbg_day(&d.start), d.start_time, dbg_day(&d.end), d.end_time
            ),
        }
    }
}
/// The semantic content of a `Debug` rendering of a zone: numbers, quoted strings, booleans and the variant names that
/// carry meaning, in order. Field labels, struct names, wrapper names and punctuation are dropped, so that the
/// comparison with the reference rendering does not pin the *formatting* of chrono's internal types.
pub fn canon_debug(s: &str) -> Vec<String> {
    const KEEP: [&str; 9] = ["None", "Some", "Fixed", "Alternate", "Julian1WithoutLeap", "Julian0WithLeap", "MonthWeekday", "true", "false"];
    let b: Vec<char> = s.chars().collect();
    let mut out = vec![];
    let mut i = 0;
    while i < b.len() {
        let c = b[i];
        if c == '"' {
            let mut j = i + 1;
            let mut t = String::new();
            while j < b.len() && b[j] != '"' {
                if b[j] == '\\' && j + 1 < b.len() {
                    j += 1;
                }
                t.push(b[j]);
                j += 1;
            }
            out.push(format!("\"{}\"", t));
            i = j + 1;
        } else if c.is_ascii_digit() || (c == '-' && i + 1 < b.len() && b[i + 1].is_ascii_digit()) {
            let mut j = i + 1;
            while j < b.len() && b[j].is_ascii_digit() {
                j += 1;
            }
            out.push(b[i..j].iter().collect());
            i = j;
        } else if c.is_alphabetic() || c == '_' {
            let mut j = i;
            while j < b.len() && (b[j].is_alphanumeric() || b[j] == '_') {
                j += 1;
            }
            let w: String = b[i..j].iter().collect();
            if KEEP.contains(&w.as_str()) {
                out.push(w);
            }
            i = j;
        } else {
            i += 1;
        }
    }
    out
}

impl RefZone {
    pub fn debug_string(&self) -> String {
        let tr: Vec<String> = self.trans.iter().map(|(t, i)| format!("Transition {{ unix_leap_time: {}, local_time_type_index: {} }}", t, i)).collect();
        let ty: Vec<String> = self.types.iter().map(dbg_type).collect();
        let rule = match &self.rule {
            None => "None".to_string(),
            Some(r) => format!("Some({})", r.debug_string()),
        };
        format!("TimeZone {{ transitions: [{}], local_time_types: [{}], leap_seconds: [], extra_rule: {} }}", tr.join(", "), ty.join(", "), rule)
    }
    /// the zone `Local` builds from a bare TZ rule string
    pub fn from_rule(r: RefRule) -> RefZone {
        let mut types = vec![r.std.clone()];
        if let Some(d) = &r.dst {
            types.push(d.ty.clone());
        }
        RefZone { trans: vec![], types, rule: Some(r) }
    }
}

// ---------------------------------------------------------------------------------------------
// POSIX TZ strings

fn fmt_hms(out: &mut String, secs: i64, force_sign: bool) {
    let a = secs.abs();
    if secs < 0 {
        out.push('-');
    } else if force_sign {
        out.push('+');
    }
    out.push_str(&format!("{}", a / 3600));
    if a % 3600 != 0 {
        out.push_str(&format!(":{:02}", a / 60 % 60));
        if a % 60 != 0 {
            out.push_str(&format!(":{:02}", a % 60));
        }
    }
}
fn fmt_name(out: &mut String, n: &str) {
    if n.bytes().all(|c| c.is_ascii_alphabetic()) {
        out.push_str(n);
    } else {
        out.push('<');
        out.push_str(n);
        out.push('>');
    }
}
fn fmt_day(out: &mut String, d: &RuleDay, time: i32) {
    match d {
        RuleDay::J1(n) => out.push_str(&format!("J{}", n)),
        RuleDay::J0(n) => out.push_str(&format!("{}", n)),
        RuleDay::M { m, w, d } => out.push_str(&format!("M{}.{}.{}", m, w, d)),
    }
    if time != 7200 {
        out.push('/');
        fmt_hms(out, time as i64, false);
    }
}

impl RefRule {
    /// `std offset [dst [offset] ,start[/time],end[/time]]`
    pub fn to_tz_string(&self) -> String {
        let mut s = String::new();
        fmt_name(&mut s, &self.std.abbr);
        fmt_hms(&mut s, -(self.std.off as i64), false);
        if let Some(d) = &self.dst {
            fmt_name(&mut s, &d.ty.abbr);
            if d.ty.off != self.std.off + 3600 {
                fmt_hms(&mut s, -(d.ty.off as i64), false);
            }
            s.push(',');
            fmt_day(&mut s, &d.start, d.start_time);
            s.push(',');
            fmt_day(&mut s, &d.end, d.end_time);
        }
        s
    }
}

struct Cur<'a> {
    b: &'a [u8],
    i: usize,
}
impl<'a> Cur<'a> {
    fn peek(&self) -> Option<u8> {
        self.b.get(self.i).copied()
    }
    fn int(&mut self) -> Option<i64> {
        let st = self.i;
        while self.peek().map_or(false, |c| c.is_ascii_digit()) {
            self.i += 1;
        }
        if st == self.i || self.i - st > 9 {
            return None;
        }
        std::str::from_utf8(&self.b[st..self.i]).ok()?.parse().ok()
    }
    fn name(&mut self) -> Option<String> {
        if self.peek() == Some(b'<') {
            self.i += 1;
            let st = self.i;
            while self.peek()? != b'>' {
                self.i += 1;
            }
            let n = std::str::from_utf8(&self.b[st..self.i]).ok()?.to_string();
            self.i += 1;
            Some(n)
        } else {
            let st = self.i;
            while self.peek().map_or(false, |c| c.is_ascii_alphabetic()) {
                self.i += 1;
            }
            Some(std::str::from_utf8(&self.b[st..self.i]).ok()?.to_string())
        }
    }
    fn hms(&mut self, signed: bool, max_h: i64) -> Option<i64> {
        let mut sign = 1;
        if signed {
            if let Some(c) = self.peek() {
                if c == b'+' || c == b'-' {
                    self.i += 1;
                    if c == b'-' {
                        sign = -1;
                    }
                }
            }
        }
        let h = self.int()?;
        let mut m = 0;
        let mut s = 0;
        if self.peek() == Some(b':') {
            self.i += 1;
            m = self.int()?;
            if self.peek() == Some(b':') {
                self.i += 1;
                s = self.int()?;
            }
        }
        if h > max_h || m > 59 || s > 59 {
            return None;
        }
        Some(sign * (h * 3600 + m * 60 + s))
    }
    fn day(&mut self, v3: bool) -> Option<(RuleDay, i32)> {
        let d = match self.peek()? {
            b'M' => {
                self.i += 1;
                let m = self.int()?;
                if self.peek()? != b'.' {
                    return None;
                }
                self.i += 1;
                let w = self.int()?;
                if self.peek()? != b'.' {
                    return None;
                }
                self.i += 1;
                let d = self.int()?;
                if !(1..=12).contains(&m) || !(1..=5).contains(&w) || !(0..=6).contains(&d) {
                    return None;
                }
                RuleDay::M { m: m as u8, w: w as u8, d: d as u8 }
            }
            b'J' => {
                self.i += 1;
                let n = self.int()?;
                if !(1..=365).contains(&n) {
                    return None;
                }
                RuleDay::J1(n as u16)
            }
            _ => {
                let n = self.int()?;
                if !(0..=365).contains(&n) {
                    return None;
                }
                RuleDay::J0(n as u16)
            }
        };
        let time = if self.peek() == Some(b'/') {
            self.i += 1;
            if v3 {
                self.hms(true, 167)?
            } else {
                self.hms(false, 24)?
            }
        } else {
            7200
        };
        Some((d, time as i32))
    }
}

fn valid_abbr(n: &str) -> bool {
    (3..=7).contains(&n.len()) && n.bytes().all(|c| c.is_ascii_alphanumeric() || c == b'+' || c == b'-')
}

/// Reference reader of `std offset [dst [offset],start[/time],end[/time]]`. `v3` allows the extended rule times.
pub fn parse_tz_string(s: &str, v3: bool) -> Option<RefRule> {
    let mut c = Cur { b: s.as_bytes(), i: 0 };
    let std_name = c.name()?;
    if !valid_abbr(&std_name) {
        return None;
    }
    let std_off = -c.hms(true, 24)?;
    let std = RefType { off: std_off as i32, dst: false, abbr: std_name };
    if c.i == c.b.len() {
        return Some(RefRule { std, dst: None });
    }
    let dst_name = c.name()?;
    if !valid_abbr(&dst_name) {
        return None;
    }
    let dst_off = if c.peek()? == b',' { std_off + 3600 } else { -c.hms(true, 24)? };
    if c.peek()? != b',' {
        return None;
    }
    c.i += 1;
    let (start, start_time) = c.day(v3)?;
    if c.peek()? != b',' {
        return None;
    }
    c.i += 1;
    let (end, end_time) = c.day(v3)?;
    if c.i != c.b.len() {
        return None;
    }
    Some(RefRule { std, dst: Some(RefDst { ty: RefType { off: dst_off as i32, dst: true, abbr: dst_name }, start, start_time, end, end_time }) })
}

// ---------------------------------------------------------------------------------------------
// TZif writer and reader (RFC 8536)

#[derive(Clone, Copy, Debug, PartialEq, Eq)]
pub enum V1Block {
    /// full copy of the data that fits 32-bit times ("fat")
    Fat,
    /// minimal placeholder block ("slim")
    Slim,
}

fn block(z: &RefZone, time_size: usize, indicators: bool, out: &mut Vec<u8>, version: u8) {
    // abbreviation table
    let mut chars: Vec<u8> = vec![];
    let mut abbr_idx: Vec<u8> = vec![];
    for t in &z.types {
        let needle: Vec<u8> = t.abbr.bytes().chain(std::iter::once(0)).collect();
        let pos = chars.windows(needle.len()).position(|w| w == &needle[..]);
        match pos {
            Some(p) => abbr_idx.push(p as u8),
            None => {
                abbr_idx.push(chars.len() as u8);
                chars.extend(&needle);
            }
        }
    }
    let trans: Vec<(i64, usize)> = if time_size == 4 { z.trans.iter().cloned().filter(|(t, _)| *t >= i32::MIN as i64 && *t <= i32::MAX as i64).collect() } else { z.trans.clone() };
    out.extend(b"TZif");
    out.push(version);
    out.extend([0u8; 15]);
    let n_ind = if indicators { z.types.len() as u32 } else { 0 };
    for c in [n_ind, n_ind, 0, trans.len() as u32, z.types.len() as u32, chars.len() as u32] {
        out.extend(c.to_be_bytes());
    }
    for (t, _) in &trans {
        if time_size == 4 {
            out.extend((*t as i32).to_be_bytes());
        } else {
            out.extend(t.to_be_bytes());
        }
    }
    for (_, ty) in &trans {
        out.push(*ty as u8);
    }
    for (i, t) in z.types.iter().enumerate() {
        out.extend(t.off.to_be_bytes());
        out.push(t.dst as u8);
        out.push(abbr_idx[i]);
    }
    out.extend(&chars);
    // no leap records
    if indicators {
        // standard/wall then UT/local. The two arrays differ on purpose: pairs (1,1), (1,0), (0,0)... — all valid,
        // never the forbidden (std=0, ut=1); a reader that swaps the arrays sees (0,1) and rejects
        for i in 0..z.types.len() {
            out.push((i <= 1) as u8);
        }
        for i in 0..z.types.len() {
            out.push((i == 0) as u8);
        }
    }
}

/// Write a zone as TZif version 1, 2 or 3. The rule (footer) only exists from version 2 on.
pub fn write_tzif(z: &RefZone, version: u8, v1: V1Block, indicators: bool) -> Vec<u8> {
    let mut out = vec![];
    let vbyte = match version {
        1 => 0u8,
        2 => b'2',
        _ => b'3',
    };
    if version == 1 {
        block(z, 4, indicators, &mut out, vbyte);
        return out;
    }
    match v1 {
        V1Block::Fat => block(z, 4, indicators, &mut out, vbyte),
        V1Block::Slim => {
            let slim = RefZone { trans: vec![], types: vec![RefType { off: 0, dst: false, abbr: "-00".into() }], rule: None };
            block(&slim, 4, false, &mut out, vbyte)
        }
    }
    block(z, 8, indicators, &mut out, vbyte);
    out.push(b'\n');
    if let Some(r) = &z.rule {
        out.extend(r.to_tz_string().bytes());
    }
    out.push(b'\n');
    out
}

#[derive(Clone, Debug, PartialEq, Eq)]
pub enum Reject {
    Truncated,
    BadMagic,
    BadVersion,
    /// version byte '4' (RFC 9636, later than the versions 1-3 the statement speaks of): a reader may reject it or read it
    LaterVersion,
    BadHeaderCounts,
    TypeIndexOutOfBounds,
    AbbrIndexOutOfBounds,
    BadDstFlag,
    UnsortedTransitions,
    TrailingDataV1,
    BadFooter,
    BadIndicators,
    HasLeapRecords,
    /// structurally fine for this reader but with features it does not judge (names, i32::MIN offsets, rule consistency)
    NotJudged,
}

struct Rd<'a> {
    b: &'a [u8],
    i: usize,
}
impl<'a> Rd<'a> {
    fn take(&mut self, n: usize) -> Result<&'a [u8], Reject> {
        if self.b.len() - self.i < n {
            return Err(Reject::Truncated);
        }
        let s = &self.b[self.i..self.i + n];
        self.i += n;
        Ok(s)
    }
    fn u32(&mut self) -> Result<u32, Reject> {
        Ok(u32::from_be_bytes(self.take(4)?.try_into().unwrap()))
    }
}

struct Hdr {
    version: u8,
    isut: usize,
    isstd: usize,
    leap: usize,
    time: usize,
    typ: usize,
    chr: usize,
}
fn header(r: &mut Rd) -> Result<Hdr, Reject> {
    if r.take(4)? != b"TZif" {
        return Err(Reject::BadMagic);
    }
    let v = r.take(1)?[0];
    let version = match v {
        0 => 1,
        b'2' => 2,
        b'3' => 3,
        b'4' => return Err(Reject::LaterVersion),
        _ => return Err(Reject::BadVersion),
    };
    r.take(15)?;
    let isut = r.u32()? as usize;
    let isstd = r.u32()? as usize;
    let leap = r.u32()? as usize;
    let time = r.u32()? as usize;
    let typ = r.u32()? as usize;
    let chr = r.u32()? as usize;
    if typ == 0 || chr == 0 || !(isut == 0 || isut == typ) || !(isstd == 0 || isstd == typ) {
        return Err(Reject::BadHeaderCounts);
    }
    Ok(Hdr { version, isut, isstd, leap, time, typ, chr })
}

/// Reference reader implementing only the structural rules the statement names.
pub fn read_tzif(bytes: &[u8]) -> Result<RefZone, Reject> {
    let mut r = Rd { b: bytes, i: 0 };
    let h1 = header(&mut r)?;
    let skip = |r: &mut Rd, h: &Hdr, ts: usize| -> Result<(), Reject> {
        let n = h.time.checked_mul(ts + 1).and_then(|x| x.checked_add(h.typ.checked_mul(6)?)).and_then(|x| x.checked_add(h.chr)).and_then(|x| x.checked_add(h.leap.checked_mul(ts + 4)?)).and_then(|x| x.checked_add(h.isstd)).and_then(|x| x.checked_add(h.isut)).ok_or(Reject::Truncated)?;
        r.take(n).map(|_| ())
    };
    let (h, ts) = if h1.version == 1 {
        (h1, 4)
    } else {
        skip(&mut r, &h1, 4)?;
        // the version that counts is the first header's; the second header only has to be a valid header
        let mut h2 = header(&mut r)?;
        h2.version = h1.version;
        (h2, 8)
    };
    let times = r.take(h.time.checked_mul(ts).ok_or(Reject::Truncated)?)?;
    let idxs = r.take(h.time)?;
    let tts = r.take(h.typ.checked_mul(6).ok_or(Reject::Truncated)?)?;
    let chars = r.take(h.chr)?;
    let _leaps = r.take(h.leap.checked_mul(ts + 4).ok_or(Reject::Truncated)?)?;
    let isstd = r.take(h.isstd)?;
    let isut = r.take(h.isut)?;
    let mut types = vec![];
    for c in tts.chunks_exact(6) {
        let off = i32::from_be_bytes(c[..4].try_into().unwrap());
        if c[4] > 1 {
            return Err(Reject::BadDstFlag);
        }
        let ai = c[5] as usize;
        if ai >= h.chr {
            return Err(Reject::AbbrIndexOutOfBounds);
        }
        let Some(end) = chars[ai..].iter().position(|&x| x == 0) else { return Err(Reject::AbbrIndexOutOfBounds) };
        let abbr = String::from_utf8_lossy(&chars[ai..ai + end]).to_string();
        types.push(RefType { off, dst: c[4] == 1, abbr });
    }
    let mut trans = vec![];
    for (k, c) in times.chunks_exact(ts).enumerate() {
        let t = if ts == 4 { i32::from_be_bytes(c.try_into().unwrap()) as i64 } else { i64::from_be_bytes(c.try_into().unwrap()) };
        let ty = idxs[k] as usize;
        if ty >= h.typ {
            return Err(Reject::TypeIndexOutOfBounds);
        }
        if let Some(&(p, _)) = trans.last() {
            if t <= p {
                return Err(Reject::UnsortedTransitions);
            }
        }
        trans.push((t, ty));
    }
    for i in 0..h.typ {
        let s = isstd.get(i).copied().unwrap_or(0);
        let u = isut.get(i).copied().unwrap_or(0);
        if (s, u) == (0, 1) {
            return Err(Reject::BadIndicators);
        }
    }
    let rule = if h.version == 1 {
        if r.i != bytes.len() {
            return Err(Reject::TrailingDataV1);
        }
        None
    } else {
        let f = &bytes[r.i..];
        let Ok(txt) = std::str::from_utf8(f) else { return Err(Reject::BadFooter) };
        if !(txt.starts_with('\n') && txt.ends_with('\n')) || txt.len() < 2 && !txt.is_empty() && txt != "\n" {
            return Err(Reject::BadFooter);
        }
        let body = txt.trim_matches(|c: char| c.is_ascii_whitespace());
        if body.starts_with(':') || body.contains('\0') {
            return Err(Reject::BadFooter);
        }
        if body.is_empty() {
            None
        } else {
            match parse_tz_string(body, h.version == 3) {
                Some(r) => Some(r),
                None => return Err(Reject::BadFooter),
            }
        }
    };
    if h.leap != 0 {
        return Err(Reject::HasLeapRecords);
    }
    Ok(RefZone { trans, types, rule })
}
