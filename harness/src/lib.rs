pub mod core;
pub mod refcal;
