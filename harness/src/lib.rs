pub mod core;
pub mod lattice;
pub mod refcal;
pub mod refleap;
pub mod reftext;
pub mod reffmt;
pub mod reftz;
pub mod zonegen;
