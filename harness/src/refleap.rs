//! RefLeapTime: the documented leap-second rules as an extended time line. Never calls chrono.
use crate::lattice::NS;
pub const E9: u32 = 1_000_000_000;
/// outcome classes reported by `ref_add`
pub const STAY: usize = 5;
pub const FWD: usize = 6;
pub const BACK: usize = 7;
pub const WRAP: usize = 4;

/// RefLeapTime: the documented rule as an extended time line
pub fn ref_add(secs: u32, frac: u32, d: i128) -> ((u32, u32), i64, usize) {
    let x = secs as i128 * NS + frac as i128;
    let x2 = x + d;
    let mut cls = usize::MAX;
    let y = if frac >= E9 {
        let lo = (secs as i128 + 1) * NS;
        let hi = (secs as i128 + 2) * NS;
        if x2 >= lo && x2 < hi {
            return ((secs, (x2 - secs as i128 * NS) as u32), 0, STAY);
        }
        if x2 >= hi {
            cls = FWD;
            x2 - NS
        } else {
            cls = BACK;
            x2
        }
    } else {
        x2
    };
    let s = y.div_euclid(NS);
    let f = y.rem_euclid(NS) as u32;
    let day = s.div_euclid(86400);
    if day != 0 && cls == usize::MAX {
        cls = WRAP;
    }
    ((s.rem_euclid(86400) as u32, f), (day * 86400) as i64, cls)
}

pub fn ref_diff(a: (u32, u32), b: (u32, u32)) -> i128 {
    // leap seconds exist exactly where an operand says so
    let mut leaps: Vec<u32> = vec![];
    if a.1 >= E9 {
        leaps.push(a.0);
    }
    if b.1 >= E9 && !leaps.contains(&b.0) {
        leaps.push(b.0);
    }
    let pos = |t: (u32, u32)| t.0 as i128 * NS + t.1 as i128 + NS * leaps.iter().filter(|&&s| s < t.0).count() as i128;
    pos(a) - pos(b)
}

