//! RefFmt: the strftime table of chrono's `format::strftime` module documentation transcribed as a
//! reference renderer. Never calls chrono.
use std::fmt::Write;

#[derive(Clone, Copy, Debug, PartialEq, Eq)]
pub enum Pad {
    Default,
    None,
    Space,
    Zero,
}
impl Pad {
    pub fn modifier(self) -> &'static str {
        match self {
            Pad::Default => "",
            Pad::None => "-",
            Pad::Space => "_",
            Pad::Zero => "0",
        }
    }
}

#[derive(Clone, Copy, Debug)]
pub struct DateF {
    pub y: i64,
    pub m: u32,
    pub d: u32,
    pub ord: u32,
    /// 0 = Monday
    pub wd: u32,
    pub iso_y: i64,
    pub iso_w: u32,
}
#[derive(Clone, Copy, Debug)]
pub struct TimeF {
    /// second of day
    pub secs: u32,
    /// nanosecond field (>= 1e9 inside a leap second)
    pub frac: u32,
}

pub const WD_SHORT: [&str; 7] = ["Mon", "Tue", "Wed", "Thu", "Fri", "Sat", "Sun"];
pub const WD_LONG: [&str; 7] = ["Monday", "Tuesday", "Wednesday", "Thursday", "Friday", "Saturday", "Sunday"];
pub const MO_SHORT: [&str; 12] = ["Jan", "Feb", "Mar", "Apr", "May", "Jun", "Jul", "Aug", "Sep", "Oct", "Nov", "Dec"];
pub const MO_LONG: [&str; 12] = ["January", "February", "March", "April", "May", "June", "July", "August", "September", "October", "November", "December"];

/// How the piece written to `out` is to be compared with the implementation's output.
#[derive(Clone, Copy, Debug, PartialEq, Eq)]
pub enum Cmp {
    /// byte for byte
    Exact,
    /// documentation is silent on the padding of this cell: same sign and digits, any padding
    Number { value: i64, signed: bool },
    /// formatting must fail
    Fail,
    /// not judged (statement excludes it)
    Skip,
}

fn num(out: &mut String, v: i64, width: usize, pad: Pad, default: Pad) {
    let p = if pad == Pad::Default { default } else { pad };
    match p {
        Pad::None => {
            let _ = write!(out, "{}", v);
        }
        Pad::Space => {
            let _ = write!(out, "{:w$}", v, w = width);
        }
        _ => {
            let _ = write!(out, "{:0w$}", v, w = width);
        }
    }
}

fn year_like(out: &mut String, y: i64, pad: Pad) -> Cmp {
    if (0..=9999).contains(&y) {
        num(out, y, 4, pad, Pad::Zero);
        Cmp::Exact
    } else if pad == Pad::Default {
        // explicit sign, at least four digits
        let _ = write!(out, "{}{:04}", if y < 0 { '-' } else { '+' }, y.abs());
        Cmp::Exact
    } else {
        let _ = write!(out, "{:+}", y);
        Cmp::Number { value: y, signed: true }
    }
}

fn century(out: &mut String, y: i64, pad: Pad) -> Cmp {
    let c = y.div_euclid(100);
    if (0..=9999).contains(&y) {
        num(out, c, 2, pad, Pad::Zero);
        Cmp::Exact
    } else {
        let _ = write!(out, "{}", c);
        Cmp::Number { value: c, signed: false }
    }
}

fn yy(out: &mut String, y: i64, pad: Pad) -> Cmp {
    num(out, y.rem_euclid(100), 2, pad, Pad::Zero);
    if y >= 0 {
        Cmp::Exact
    } else {
        Cmp::Skip // the statement restricts %y / %g to years >= 0
    }
}

pub fn offset_text(out: &mut String, off: i32, kind: u8) {
    // kind 0: %z (+hhmm, rounded to the minute), 1: %:z, 2: %::z (seconds kept), 3: %:::z (hours, truncated)
    let sign = if off < 0 { '-' } else { '+' };
    let a = off.abs();
    match kind {
        0 | 1 => {
            let mins = (a + 30) / 60;
            let _ = write!(out, "{}{:02}{}{:02}", sign, mins / 60, if kind == 1 { ":" } else { "" }, mins % 60);
        }
        2 => {
            let _ = write!(out, "{}{:02}:{:02}:{:02}", sign, a / 3600, a / 60 % 60, a % 60);
        }
        _ => {
            let _ = write!(out, "{}{:02}", sign, a / 3600);
        }
    }
}

fn frac_auto(out: &mut String, f: u32) {
    let f = f % 1_000_000_000;
    if f == 0 {
    } else if f % 1_000_000 == 0 {
        let _ = write!(out, ".{:03}", f / 1_000_000);
    } else if f % 1000 == 0 {
        let _ = write!(out, ".{:06}", f / 1000);
    } else {
        let _ = write!(out, ".{:09}", f);
    }
}

/// Every specifier of the documented table (without the leading '%' and without pad modifier).
pub const DATE_SPECS: &[&str] = &["Y", "C", "y", "q", "m", "b", "B", "h", "d", "e", "a", "A", "w", "u", "U", "W", "G", "g", "V", "j", "D", "x", "F", "v"];
pub const TIME_SPECS: &[&str] = &["H", "k", "I", "l", "P", "p", "M", "S", "f", ".f", ".3f", ".6f", ".9f", "3f", "6f", "9f", "R", "T", "X", "r"];
pub const OFF_SPECS: &[&str] = &["z", ":z", "::z", ":::z"];
pub const DT_SPECS: &[&str] = &["c", "s"];
pub const DTO_SPECS: &[&str] = &["+", "s"];
pub const SPECIAL_SPECS: &[&str] = &["t", "n", "%"];

/// numeric specifiers (a padding modifier is allowed on these and only on these)
pub fn is_numeric(spec: &str) -> bool {
    matches!(spec, "Y" | "C" | "y" | "q" | "m" | "d" | "e" | "w" | "u" | "U" | "W" | "G" | "g" | "V" | "j" | "H" | "k" | "I" | "l" | "M" | "S" | "f" | "s")
}

/// Render one specifier. `date`/`time`/`off` = what the formatted value has.
pub fn render(spec: &str, pad: Pad, date: Option<&DateF>, time: Option<&TimeF>, off: Option<i32>, out: &mut String) -> Cmp {
    if pad != Pad::Default && !is_numeric(spec) {
        return Cmp::Fail;
    }
    macro_rules! need {
        ($o:expr) => {
            match $o {
                Some(x) => x,
                None => return Cmp::Fail,
            }
        };
    }
    match spec {
        // ---- date ----
        "Y" => year_like(out, need!(date).y, pad),
        "G" => year_like(out, need!(date).iso_y, pad),
        "C" => century(out, need!(date).y, pad),
        "y" => yy(out, need!(date).y, pad),
        "g" => yy(out, need!(date).iso_y, pad),
        "q" => {
            let _ = write!(out, "{}", (need!(date).m - 1) / 3 + 1);
            Cmp::Exact
        }
        "m" => {
            num(out, need!(date).m as i64, 2, pad, Pad::Zero);
            Cmp::Exact
        }
        "d" => {
            num(out, need!(date).d as i64, 2, pad, Pad::Zero);
            Cmp::Exact
        }
        "e" => {
            num(out, need!(date).d as i64, 2, pad, Pad::Space);
            Cmp::Exact
        }
        "b" | "h" => {
            out.push_str(MO_SHORT[need!(date).m as usize - 1]);
            Cmp::Exact
        }
        "B" => {
            out.push_str(MO_LONG[need!(date).m as usize - 1]);
            Cmp::Exact
        }
        "a" => {
            out.push_str(WD_SHORT[need!(date).wd as usize]);
            Cmp::Exact
        }
        "A" => {
            out.push_str(WD_LONG[need!(date).wd as usize]);
            Cmp::Exact
        }
        "w" => {
            let _ = write!(out, "{}", (need!(date).wd + 1) % 7);
            Cmp::Exact
        }
        "u" => {
            let _ = write!(out, "{}", need!(date).wd + 1);
            Cmp::Exact
        }
        "U" => {
            // week 1 starts with the first Sunday of the year; days before it are week 0
            let d = need!(date);
            let wday_sun0 = (d.wd + 1) % 7;
            num(out, ((d.ord - 1 + 7 - wday_sun0) / 7) as i64, 2, pad, Pad::Zero);
            Cmp::Exact
        }
        "W" => {
            let d = need!(date);
            num(out, ((d.ord - 1 + 7 - d.wd) / 7) as i64, 2, pad, Pad::Zero);
            Cmp::Exact
        }
        "V" => {
            num(out, need!(date).iso_w as i64, 2, pad, Pad::Zero);
            Cmp::Exact
        }
        "j" => {
            num(out, need!(date).ord as i64, 3, pad, Pad::Zero);
            Cmp::Exact
        }
        "D" | "x" => {
            let d = need!(date);
            let _ = write!(out, "{:02}/{:02}/{:02}", d.m, d.d, d.y.rem_euclid(100));
            if d.y >= 0 {
                Cmp::Exact
            } else {
                Cmp::Skip
            }
        }
        "F" => {
            let d = need!(date);
            let c = year_like(out, d.y, Pad::Default);
            let _ = write!(out, "-{:02}-{:02}", d.m, d.d);
            c
        }
        "v" => {
            let d = need!(date);
            let _ = write!(out, "{:2}-{}-", d.d, MO_SHORT[d.m as usize - 1]);
            year_like(out, d.y, Pad::Default)
        }
        // ---- time ----
        "H" => {
            num(out, (need!(time).secs / 3600) as i64, 2, pad, Pad::Zero);
            Cmp::Exact
        }
        "k" => {
            num(out, (need!(time).secs / 3600) as i64, 2, pad, Pad::Space);
            Cmp::Exact
        }
        "I" | "l" => {
            let h = need!(time).secs / 3600;
            let h12 = if h % 12 == 0 { 12 } else { h % 12 };
            num(out, h12 as i64, 2, pad, if spec == "I" { Pad::Zero } else { Pad::Space });
            Cmp::Exact
        }
        "P" => {
            out.push_str(if need!(time).secs / 3600 >= 12 { "pm" } else { "am" });
            Cmp::Exact
        }
        "p" => {
            out.push_str(if need!(time).secs / 3600 >= 12 { "PM" } else { "AM" });
            Cmp::Exact
        }
        "M" => {
            num(out, (need!(time).secs / 60 % 60) as i64, 2, pad, Pad::Zero);
            Cmp::Exact
        }
        "S" => {
            let t = need!(time);
            num(out, (t.secs % 60 + t.frac / 1_000_000_000) as i64, 2, pad, Pad::Zero);
            Cmp::Exact
        }
        "f" => {
            num(out, (need!(time).frac % 1_000_000_000) as i64, 9, pad, Pad::Zero);
            Cmp::Exact
        }
        ".f" => {
            frac_auto(out, need!(time).frac);
            Cmp::Exact
        }
        ".3f" | ".6f" | ".9f" | "3f" | "6f" | "9f" => {
            let f = need!(time).frac % 1_000_000_000;
            let n: u32 = spec.trim_start_matches('.')[..1].parse().unwrap();
            if spec.starts_with('.') {
                out.push('.');
            }
            let _ = write!(out, "{:0w$}", f / 10u32.pow(9 - n), w = n as usize);
            Cmp::Exact
        }
        "R" => {
            let t = need!(time);
            let _ = write!(out, "{:02}:{:02}", t.secs / 3600, t.secs / 60 % 60);
            Cmp::Exact
        }
        "T" | "X" => {
            let t = need!(time);
            let _ = write!(out, "{:02}:{:02}:{:02}", t.secs / 3600, t.secs / 60 % 60, t.secs % 60 + t.frac / 1_000_000_000);
            Cmp::Exact
        }
        "r" => {
            let t = need!(time);
            let h = t.secs / 3600;
            let _ = write!(out, "{:02}:{:02}:{:02} {}", if h % 12 == 0 { 12 } else { h % 12 }, t.secs / 60 % 60, t.secs % 60 + t.frac / 1_000_000_000, if h >= 12 { "PM" } else { "AM" });
            Cmp::Exact
        }
        // ---- offset ----
        "z" => {
            offset_text(out, need!(off), 0);
            Cmp::Exact
        }
        ":z" => {
            offset_text(out, need!(off), 1);
            Cmp::Exact
        }
        "::z" => {
            offset_text(out, need!(off), 2);
            Cmp::Exact
        }
        ":::z" => {
            offset_text(out, need!(off), 3);
            Cmp::Exact
        }
        // ---- date & time ----
        "c" => {
            let d = need!(date);
            let t = need!(time);
            let _ = write!(out, "{} {} {:2} {:02}:{:02}:{:02} ", WD_SHORT[d.wd as usize], MO_SHORT[d.m as usize - 1], d.d, t.secs / 3600, t.secs / 60 % 60, t.secs % 60 + t.frac / 1_000_000_000);
            year_like(out, d.y, Pad::Default)
        }
        "+" => {
            let d = need!(date);
            let t = need!(time);
            let o = need!(off);
            let c = year_like(out, d.y, Pad::Default);
            let _ = write!(out, "-{:02}-{:02}T{:02}:{:02}:{:02}", d.m, d.d, t.secs / 3600, t.secs / 60 % 60, t.secs % 60 + t.frac / 1_000_000_000);
            frac_auto(out, t.frac);
            offset_text(out, o, 1);
            c
        }
        "t" => {
            out.push('\t');
            Cmp::Exact
        }
        "n" => {
            out.push('\n');
            Cmp::Exact
        }
        "%" => {
            out.push('%');
            Cmp::Exact
        }
        _ => Cmp::Fail, // not in the documented table
    }
}

/// Unix timestamp (non-leap seconds) of a wall clock reading at an offset; day = days since 1970-01-01
pub fn timestamp(day: i64, t: &TimeF, off: i32) -> i64 {
    day * 86400 + t.secs as i64 - off as i64
}

/// compare an implementation output with a reference piece
pub fn same(actual: &str, expected: &str, cmp: Cmp) -> bool {
    match cmp {
        Cmp::Exact => actual == expected,
        Cmp::Skip => true,
        Cmp::Fail => false,
        Cmp::Number { value, signed } => {
            let t = actual.trim_start_matches(' ');
            let (sign, digits) = match t.as_bytes().first() {
                Some(b'+') => (Some('+'), &t[1..]),
                Some(b'-') => (Some('-'), &t[1..]),
                _ => (None, t),
            };
            if digits.is_empty() || !digits.bytes().all(|c| c.is_ascii_digit()) {
                return false;
            }
            let Ok(v) = digits.parse::<i64>() else { return false };
            let v = if sign == Some('-') { -v } else { v };
            v == value && (!signed || sign.is_some()) && (signed || sign != Some('+'))
        }
    }
}
