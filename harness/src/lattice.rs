//! Boundary alphabets (DESIGN §2.3) and conversions between reference values and chrono values.
use crate::core::Tier;
use crate::refcal::*;
use chrono::{Datelike, NaiveDate, NaiveDateTime, NaiveTime, TimeDelta, Timelike};

pub const NS: i128 = 1_000_000_000;
pub const DAY_NS: i128 = 86_400 * NS;
pub const MIN_INST: i128 = MIN_DAY as i128 * DAY_NS;
pub const MAX_INST: i128 = (MAX_DAY as i128 + 1) * DAY_NS - 1;
/// TimeDelta range: +-(2^63-1) milliseconds, in ns
pub const MAX_DELTA: i128 = i64::MAX as i128 * 1_000_000;

fn dedup_sorted<T: Ord + Copy>(mut v: Vec<T>) -> Vec<T> {
    v.sort();
    v.dedup();
    v
}

/// integer lattice as i128, clipped to [lo, hi]
pub fn lattice(lo: i128, hi: i128, bits: u32) -> Vec<i128> {
    let mut v: Vec<i128> = vec![0, 1, 2, 3, -1, -2, -3, lo, lo + 1, lo + 2, hi, hi - 1, hi - 2];
    for k in 1..bits {
        let p = 1i128 << k;
        for s in [-1i128, 0, 1] {
            v.push(p + s);
            v.push(-p + s);
        }
    }
    let mut p = 10i128;
    while p < hi {
        for s in [-1i128, 0, 1] {
            v.push(p + s);
            v.push(-p + s);
        }
        p *= 10;
    }
    // multiplicative alias classes: x such that m*x wraps around 2^31 / 2^32 / 2^63 / 2^64 into a small value, for the
    // unit factors that occur in the code (7 days, 12 months, 60, 100, 365, 1000, 3600, 86400, 10^6, 10^9)
    for m in [7i128, 12, 60, 100, 365, 1000, 3600, 86400, 1_000_000, 1_000_000_000] {
        for w in [1i128 << 31, 1 << 32, 1 << 63, 1 << 64] {
            for k in [1i128, 2, 3] {
                let q = k * w / m;
                for j in [0i128, 1, 2] {
                    v.push(q + j);
                    v.push(-(q + j));
                }
            }
        }
    }
    v.retain(|x| *x >= lo && *x <= hi);
    dedup_sorted(v)
}
pub fn lat_i64() -> Vec<i64> {
    lattice(i64::MIN as i128, i64::MAX as i128, 64).into_iter().map(|x| x as i64).collect()
}
pub fn lat_i32() -> Vec<i32> {
    lattice(i32::MIN as i128, i32::MAX as i128, 32).into_iter().map(|x| x as i32).collect()
}
pub fn lat_u32() -> Vec<u32> {
    lattice(0, u32::MAX as i128, 33).into_iter().map(|x| x as u32).collect()
}
pub fn lat_u64() -> Vec<u64> {
    lattice(0, u64::MAX as i128, 65).into_iter().map(|x| x as u64).collect()
}
/// alias classes k*2^8+v, k*2^16+v, 2^32+v ... for small in-domain v
pub fn aliases_u32(vs: &[u32]) -> Vec<u32> {
    let mut out = vec![];
    for &v in vs {
        for base in [1u64 << 8, 1 << 16, 1 << 24, 1 << 31, (1 << 32) - 256, 2 << 8, 2 << 16] {
            let x = base + v as u64;
            if x <= u32::MAX as u64 {
                out.push(x as u32);
            }
        }
    }
    dedup_sorted(out)
}

/// in-range years alphabet Y
pub fn years(tier: Tier) -> Vec<i64> {
    let mut v: Vec<i64> = vec![];
    let full = tier == Tier::Thorough;
    if full {
        v.extend(-400..=399);
        v.extend(1600..=2399);
        v.extend(MIN_YEAR..MIN_YEAR + 400);
        v.extend(MAX_YEAR - 399..=MAX_YEAR);
    } else {
        v.extend(-5..=5);
        v.extend(1895..=1905);
        v.extend(1965..=2040);
        v.extend([1600, 1700, 1800, 2100, 2200, 2300, 2400, -100, -400, -401, 400, 399, 404]);
        v.extend(MIN_YEAR..MIN_YEAR + 6);
        v.extend(MAX_YEAR - 5..=MAX_YEAR);
    }
    v.extend([-10000, -9999, -9998, -1000, -999, -100, -99, -1, 0, 1, 69, 70, 99, 100, 999, 1000, 9998, 9999, 10000, 10001, 99999, 100000, -99999, -100000]);
    dedup_sorted(v)
}

/// boundary dates as day numbers since 1970-01-01
pub fn b_dates(tier: Tier) -> Vec<i64> {
    let mut v = vec![];
    for y in years(tier) {
        for (m, d) in [(1u32, 1u32), (1, 2), (1, 3), (1, 4), (2, 27), (2, 28), (3, 1), (3, 2), (6, 30), (7, 1), (12, 24), (12, 28), (12, 29), (12, 30), (12, 31)] {
            v.push(days_from_civil(y, m, d));
        }
        if is_leap(y) {
            v.push(days_from_civil(y, 2, 29));
        }
        if tier == Tier::Thorough {
            for m in 1..=12u32 {
                v.push(days_from_civil(y, m, 1));
                v.push(days_from_civil(y, m, 2));
                v.push(days_from_civil(y, m, days_in_month(y, m)));
                v.push(days_from_civil(y, m, days_in_month(y, m) - 1));
            }
        }
    }
    let span = if tier == Tier::Thorough { 400 } else { 40 };
    for k in 0..=span {
        v.push(MIN_DAY + k);
        v.push(MAX_DAY - k);
    }
    v.extend([-1, 0, 1]);
    v.retain(|z| day_in_range(*z));
    dedup_sorted(v)
}

/// small set of dates for inner loops of big products
pub fn b_dates_small() -> Vec<i64> {
    let mut v = vec![MIN_DAY, MIN_DAY + 1, MIN_DAY + 365, MAX_DAY, MAX_DAY - 1, MAX_DAY - 365, -1, 0, 1];
    for (y, m, d) in [
        (0i64, 1u32, 1u32), (0, 2, 29), (0, 12, 31), (-1, 12, 31), (1, 1, 1), (1582, 10, 15), (1677, 9, 21), (1677, 9, 22), (1900, 2, 28), (1900, 3, 1), (1969, 12, 31), (1999, 12, 31),
        (2000, 2, 29), (2000, 12, 31), (2001, 1, 1), (2015, 6, 30), (2016, 12, 31), (2023, 11, 5), (2024, 2, 29), (2038, 1, 19), (2100, 2, 28), (2262, 4, 11), (2262, 4, 12), (9999, 12, 31),
        (10000, 1, 1), (-9999, 1, 1), (-10000, 12, 31), (100000, 6, 15), (-100000, 6, 15),
    ] {
        v.push(days_from_civil(y, m, d));
    }
    dedup_sorted(v)
}

/// (second of day, nanosecond field) — nanos >= 1e9 are leap-second representations
pub fn b_times(with_leap: bool) -> Vec<(u32, u32)> {
    let mut v = vec![];
    for s in [0u32, 1, 59, 60, 3599, 3600, 43199, 43200, 86339, 86340, 86398, 86399] {
        for n in [0u32, 1, 999_999, 1_000_000, 500_000_000, 999_999_999] {
            v.push((s, n));
        }
    }
    if with_leap {
        for s in [59u32, 3599, 43199, 86399] {
            for n in [1_000_000_000u32, 1_000_000_001, 1_500_000_000, 1_999_999_999] {
                v.push((s, n));
            }
        }
    }
    v
}

/// one nanosecond field per count of significant fraction digits (1..=9), three shapes each: the leading digits of
/// 123456789, a lone 1 in the last kept place (leading zeros), and all nines
pub fn frac_digit_classes() -> Vec<u32> {
    let mut v = vec![];
    for p in 1..=9u32 {
        let scale = 10u32.pow(9 - p);
        v.push(123_456_789 / scale * scale);
        v.push(scale);
        v.push(999_999_999 / scale * scale);
    }
    v.sort();
    v.dedup();
    v
}

/// b_times plus every fraction-digit class on an ordinary second, on second 59 and (optionally) inside a leap second
pub fn b_times_fracs(with_leap: bool) -> Vec<(u32, u32)> {
    let mut v = b_times(with_leap);
    for f in frac_digit_classes() {
        v.push((45_296, f));
        v.push((86_399, f));
        if with_leap {
            v.push((86_399, 1_000_000_000 + f));
        }
    }
    v.sort();
    v.dedup();
    v
}

/// durations in ns (within and around the TimeDelta range)
pub fn b_durs() -> Vec<i128> {
    let mut v: Vec<i128> = vec![0];
    let s = NS;
    let d = DAY_NS;
    let span = MAX_INST - MIN_INST;
    let mut pos: Vec<i128> = vec![1, 2, s - 1, s, s + 1, 59 * s, 60 * s, 61 * s, 3600 * s, 86399 * s, d - 1, d, d + 1, 86401 * s];
    for k in [2i128, 7, 27, 28, 29, 30, 31, 365, 366, 1461, 36524, 36525, 146096, 146097, 146098] {
        pos.push(k * d);
    }
    // alias classes of the whole-day count under a narrowing cast to i32/u32
    for sh in [31u32, 32, 33] {
        for k in [0i128, 1, 2, -1, -2, 365, 146097] {
            pos.push(((1i128 << sh) + k) * d);
            pos.push(((1i128 << sh) + k) * d + 1);
        }
    }
    pos.extend([span - 1, span, span + 1, span / 2, i32::MAX as i128 * d, (i32::MAX as i128 + 1) * d, MAX_DELTA, MAX_DELTA - 1, MAX_DELTA - s, i64::MAX as i128, i64::MAX as i128 + 1]);
    for p in pos {
        v.push(p);
        v.push(-p);
    }
    v.retain(|x| x.abs() <= MAX_DELTA);
    dedup_sorted(v)
}

pub fn b_offsets_small() -> Vec<i32> {
    let mut v = vec![0];
    for o in [1, 59, 60, 61, 1799, 1800, 3599, 3600, 3601, 19800, 43200, 50400, 86340, 86398, 86399] {
        v.push(o);
        v.push(-o);
    }
    dedup_sorted(v)
}
pub fn b_offsets_minutes() -> Vec<i32> {
    (-1439..=1439).map(|m| m * 60).collect()
}

// ---------------------------------------------------------------------------------------
// conversions (constructors used here are themselves checked by C01 / C07)

pub fn mk_date(z: i64) -> NaiveDate {
    let (y, m, d) = civil_from_days(z);
    NaiveDate::from_ymd_opt(y as i32, m, d).unwrap_or_else(|| panic!("harness: from_ymd_opt({},{},{}) refused an in-range date", y, m, d))
}
pub fn mk_time(secs: u32, nanos: u32) -> NaiveTime {
    NaiveTime::from_num_seconds_from_midnight_opt(secs, nanos).unwrap_or_else(|| panic!("harness: from_num_seconds_from_midnight_opt({},{}) refused", secs, nanos))
}
/// a time with a leap-second representation on any second (only second 59 is constructible directly)
pub fn mk_time_any(secs: u32, nanos: u32) -> NaiveTime {
    if nanos < 1_000_000_000 || secs % 60 == 59 {
        mk_time(secs, nanos)
    } else {
        mk_time(secs, 0).with_nanosecond(nanos).unwrap_or_else(|| panic!("harness: with_nanosecond({}) refused", nanos))
    }
}
pub fn mk_ndt(z: i64, secs: u32, nanos: u32) -> NaiveDateTime {
    mk_date(z).and_time(mk_time_any(secs, nanos))
}
/// from a non-leap instant in ns since the epoch
pub fn mk_ndt_inst(inst: i128) -> NaiveDateTime {
    let z = inst.div_euclid(DAY_NS) as i64;
    let r = inst.rem_euclid(DAY_NS);
    mk_ndt(z, (r / NS) as u32, (r % NS) as u32)
}
pub fn date_z(d: NaiveDate) -> i64 {
    days_from_civil(d.year() as i64, d.month(), d.day())
}
/// (day, second of day, nanosecond field incl. leap)
pub fn ndt_parts(t: NaiveDateTime) -> (i64, u32, u32) {
    (date_z(t.date()), t.time().num_seconds_from_midnight(), t.time().nanosecond())
}
/// instant in ns; a leap-second value maps beyond its second (secs*1e9 + nanos)
pub fn ndt_inst(t: NaiveDateTime) -> i128 {
    let (z, s, n) = ndt_parts(t);
    z as i128 * DAY_NS + s as i128 * NS + n as i128
}
pub fn mk_delta(ns: i128) -> TimeDelta {
    let secs = ns.div_euclid(NS);
    let nanos = ns.rem_euclid(NS);
    TimeDelta::new(secs as i64, nanos as u32).unwrap_or_else(|| panic!("harness: TimeDelta::new({},{}) refused an in-range duration", secs, nanos))
}
pub fn delta_ns(d: TimeDelta) -> i128 {
    // num_seconds truncates toward zero, subsec_nanos has the same sign
    d.num_seconds() as i128 * NS + d.subsec_nanos() as i128
}
