//! Reference proleptic Gregorian calendar. Never calls chrono.
//!
//! Two independent derivations: closed forms (Hinnant's days_from_civil / civil_from_days) and a
//! day-by-day counter that only knows "leap iff %4 and (not %100 or %400)", month lengths,
//! weekday+1 and the ISO definition (weeks start Monday; a week belongs to the year of its
//! Thursday). Drivers compare the two on every day they sweep.

pub const MIN_YEAR: i64 = -262143;
pub const MAX_YEAR: i64 = 262142;

#[inline]
pub fn is_leap(y: i64) -> bool {
    y % 4 == 0 && (y % 100 != 0 || y % 400 == 0)
}

#[inline]
pub fn days_in_month(y: i64, m: u32) -> u32 {
    match m {
        1 | 3 | 5 | 7 | 8 | 10 | 12 => 31,
        4 | 6 | 9 | 11 => 30,
        2 => {
            if is_leap(y) {
                29
            } else {
                28
            }
        }
        _ => 0,
    }
}

#[inline]
pub fn days_in_year(y: i64) -> u32 {
    if is_leap(y) {
        366
    } else {
        365
    }
}

/// Days since 1970-01-01 (Hinnant).
#[inline]
pub const fn days_from_civil(y: i64, m: u32, d: u32) -> i64 {
    let y = if m <= 2 { y - 1 } else { y };
    let era = y.div_euclid(400);
    let yoe = y.rem_euclid(400);
    let mp = (m as i64 + 9) % 12;
    let doy = (153 * mp + 2) / 5 + d as i64 - 1;
    let doe = yoe * 365 + yoe / 4 - yoe / 100 + doy;
    era * 146097 + doe - 719468
}

/// (year, month, day) from days since 1970-01-01 (Hinnant).
#[inline]
pub fn civil_from_days(z: i64) -> (i64, u32, u32) {
    let z = z + 719468;
    let era = z.div_euclid(146097);
    let doe = z.rem_euclid(146097);
    let yoe = (doe - doe / 1460 + doe / 36524 - doe / 146096) / 365;
    let y = yoe + era * 400;
    let doy = doe - (365 * yoe + yoe / 4 - yoe / 100);
    let mp = (5 * doy + 2) / 153;
    let d = (doy - (153 * mp + 2) / 5 + 1) as u32;
    let m = if mp < 10 { mp + 3 } else { mp - 9 } as u32;
    (if m <= 2 { y + 1 } else { y }, m, d)
}

/// 0 = Monday .. 6 = Sunday. 1970-01-01 was a Thursday.
#[inline]
pub fn weekday_from_days(z: i64) -> u32 {
    (z + 3).rem_euclid(7) as u32
}

#[inline]
pub fn ordinal(y: i64, m: u32, d: u32) -> u32 {
    let mut o = d;
    let mut mm = 1;
    while mm < m {
        o += days_in_month(y, mm);
        mm += 1;
    }
    o
}

pub fn from_ordinal(y: i64, o: u32) -> Option<(u32, u32)> {
    if o == 0 || o > days_in_year(y) {
        return None;
    }
    let mut rest = o;
    for m in 1..=12 {
        let l = days_in_month(y, m);
        if rest <= l {
            return Some((m, rest));
        }
        rest -= l;
    }
    None
}

/// chrono's day number: 0001-01-01 is day 1.
pub const CE_OFFSET: i64 = 719163;

pub const MIN_DAY: i64 = days_from_civil(MIN_YEAR, 1, 1);
pub const MAX_DAY: i64 = days_from_civil(MAX_YEAR, 12, 31);
#[inline]
pub fn day_in_range(z: i64) -> bool {
    z >= MIN_DAY && z <= MAX_DAY
}

/// ISO (year, week) of a day, from the definition: the week (Mon..Sun) belongs to the year that
/// contains its Thursday; week number = how many Thursdays of that year up to and incl. this one.
pub fn iso_week_of(z: i64) -> (i64, u32) {
    let wd = weekday_from_days(z) as i64;
    let thursday = z - wd + 3;
    let (ty, tm, td) = civil_from_days(thursday);
    let tord = ordinal(ty, tm, td);
    (ty, (tord - 1) / 7 + 1)
}

/// Number of ISO weeks of an ISO year: 53 iff Jan 1 is a Thursday, or a Wednesday in a leap year.
pub fn iso_weeks_in_year(y: i64) -> u32 {
    let jan1 = weekday_from_days(days_from_civil(y, 1, 1));
    if jan1 == 3 || (jan1 == 2 && is_leap(y)) {
        53
    } else {
        52
    }
}

/// Day number of ISO (year, week, weekday 0=Mon); `None` if the week does not exist.
pub fn day_from_iso(y: i64, w: u32, wd: u32) -> Option<i64> {
    if w == 0 || w > iso_weeks_in_year(y) || wd > 6 {
        return None;
    }
    let jan4 = days_from_civil(y, 1, 4);
    let monday1 = jan4 - weekday_from_days(jan4) as i64;
    Some(monday1 + (w as i64 - 1) * 7 + wd as i64)
}

/// The day-by-day counter.
#[derive(Clone, Copy, Debug, PartialEq, Eq)]
pub struct DayCounter {
    pub z: i64,
    pub y: i64,
    pub m: u32,
    pub d: u32,
    pub ord: u32,
    pub wd: u32,
    pub iso_y: i64,
    pub iso_w: u32,
}

impl DayCounter {
    /// Seed the counter from the closed forms (only at the start of a unit).
    pub fn at(z: i64) -> DayCounter {
        let (y, m, d) = civil_from_days(z);
        let (iso_y, iso_w) = iso_week_of(z);
        DayCounter { z, y, m, d, ord: ordinal(y, m, d), wd: weekday_from_days(z), iso_y, iso_w }
    }
    pub fn step(&mut self) {
        self.z += 1;
        self.wd = (self.wd + 1) % 7;
        self.d += 1;
        self.ord += 1;
        if self.d > days_in_month(self.y, self.m) {
            self.d = 1;
            self.m += 1;
            if self.m > 12 {
                self.m = 1;
                self.y += 1;
                self.ord = 1;
            }
        }
        if self.wd == 0 {
            // a new week starts; it belongs to the year of its Thursday (3 days ahead)
            let thursday_year = if self.m == 12 && self.d + 3 > 31 { self.y + 1 } else { self.y };
            if thursday_year != self.iso_y {
                self.iso_y = thursday_year;
                self.iso_w = 1;
            } else {
                self.iso_w += 1;
            }
        }
    }
    /// closed forms agree with the counter?
    pub fn agrees_with_closed_forms(&self) -> bool {
        *self == DayCounter::at(self.z)
    }
}

pub fn selftest() -> Result<(), String> {
    if days_from_civil(1970, 1, 1) != 0 {
        return Err("epoch".into());
    }
    if civil_from_days(0) != (1970, 1, 1) || weekday_from_days(0) != 3 {
        return Err("epoch back".into());
    }
    if days_from_civil(2000, 3, 1) != 11017 {
        return Err("2000-03-01".into());
    }
    if MAX_DAY - MIN_DAY + 1 != 191_491_529 {
        return Err(format!("range ends {} {}", MIN_DAY, MAX_DAY));
    }
    // ISO spot checks from ISO 8601 examples
    let chk = |y, m, d, iy, iw| iso_week_of(days_from_civil(y, m, d)) == (iy, iw);
    if !(chk(2005, 1, 1, 2004, 53) && chk(2005, 1, 2, 2004, 53) && chk(2005, 12, 31, 2005, 52) && chk(2007, 1, 1, 2007, 1)
        && chk(2008, 12, 29, 2009, 1) && chk(2010, 1, 3, 2009, 53) && chk(2009, 12, 31, 2009, 53) && chk(2020, 12, 31, 2020, 53))
    {
        return Err("iso examples".into());
    }
    if day_from_iso(2004, 53, 5) != Some(days_from_civil(2005, 1, 1)) {
        return Err("day_from_iso".into());
    }
    Ok(())
}
