//! A small model time zone for the code paths that `Utc` and `FixedOffset` never take: the offset is +01:00 before
//! `t1`, +02:00 in [t1, t2) and +01:00 from `t2` on (one skipped hour at t1, one repeated hour at t2). The transition
//! instants are parameters, so the repeated hour can also be put at the very end of the supported range.
use chrono::{FixedOffset, MappedLocalTime, NaiveDate, NaiveDateTime, Offset, TimeZone};

/// 2021-03-28T01:00:00Z and 2021-10-31T01:00:00Z
pub const GF_T1: i64 = 1_616_893_200;
pub const GF_T2: i64 = 1_635_642_000;

#[derive(Clone, Copy, Debug, PartialEq, Eq)]
pub struct Gz {
    pub t1: i64,
    pub t2: i64,
}
#[derive(Clone, Copy, Debug, PartialEq, Eq)]
pub struct GzOff {
    pub off: i32,
    pub z: Gz,
}
impl Offset for GzOff {
    fn fix(&self) -> FixedOffset {
        FixedOffset::east_opt(self.off).unwrap()
    }
}
impl std::fmt::Display for GzOff {
    fn fmt(&self, f: &mut std::fmt::Formatter<'_>) -> std::fmt::Result {
        write!(f, "{}", self.fix())
    }
}
pub const GAPFOLD_2021: Gz = Gz { t1: GF_T1, t2: GF_T2 };

/// seconds since the epoch of a NaiveDateTime read as UTC (also for the internal one-day headroom values)
fn secs_of(n: &NaiveDateTime) -> i64 {
    n.and_utc().timestamp()
}
impl Gz {
    pub fn offset_at(&self, utc_secs: i64) -> i32 {
        if utc_secs >= self.t1 && utc_secs < self.t2 {
            7200
        } else {
            3600
        }
    }
    /// the readings (instant, offset) of a wall clock given as seconds, earliest instant first
    pub fn resolve(&self, wall_secs: i64) -> Vec<(i64, i32)> {
        let mut v: Vec<(i64, i32)> = [7200, 3600].iter().map(|&o| (wall_secs - o as i64, o)).filter(|&(u, o)| self.offset_at(u) == o).collect();
        v.sort();
        v
    }
}
impl TimeZone for Gz {
    type Offset = GzOff;
    fn from_offset(o: &GzOff) -> Self {
        o.z
    }
    fn offset_from_local_date(&self, _: &NaiveDate) -> MappedLocalTime<GzOff> {
        MappedLocalTime::None
    }
    fn offset_from_local_datetime(&self, local: &NaiveDateTime) -> MappedLocalTime<GzOff> {
        let r = self.resolve(secs_of(local));
        match r.len() {
            0 => MappedLocalTime::None,
            1 => MappedLocalTime::Single(GzOff { off: r[0].1, z: *self }),
            _ => MappedLocalTime::Ambiguous(GzOff { off: r[0].1, z: *self }, GzOff { off: r[1].1, z: *self }),
        }
    }
    fn offset_from_utc_date(&self, _: &NaiveDate) -> GzOff {
        GzOff { off: 3600, z: *self }
    }
    fn offset_from_utc_datetime(&self, utc: &NaiveDateTime) -> GzOff {
        GzOff { off: self.offset_at(secs_of(utc)), z: *self }
    }
}

// ------------------------------------------------------------------------------------------------------------------
use crate::core::{guard, Acc};
use crate::lattice::mk_time;
use crate::refcal::{MAX_DAY, MIN_DAY};
use chrono::{DateTime, Datelike, Days, Months, Timelike};

/// Safety at the range ends in a zone whose skipped / repeated hours lie there (partly in the one-day headroom): whatever
/// a replacement or step returns — `Some`, `Single`, or both members of an `Ambiguous` — is a value inside the
/// supported range that is a reading of the zone, and nothing panics. (No completeness is demanded here.)
pub fn range_end_safety(acc: &mut Acc, hit_ok: usize) {
    let max_s = (MAX_DAY + 1) * 86_400 - 1;
    let min_s = MIN_DAY * 86_400;
    let zones = [Gz { t1: min_s + 1800, t2: max_s - 1799 }, Gz { t1: min_s + 5400, t2: max_s - 5400 }, Gz { t1: min_s + 86_400, t2: max_s - 3 * 3600 }];
    for tz in zones {
        let mut starts: Vec<i64> = vec![];
        for k in 0..=16i64 {
            starts.push(min_s + k * 900);
            starts.push(max_s - k * 900);
            starts.push(min_s + k * 900 + 1);
            starts.push(max_s - k * 900 - 1);
        }
        starts.extend([min_s + 86_400, min_s + 90_000, max_s - 86_400, max_s - 90_000]);
        starts.sort();
        starts.dedup();
        for &u in &starts {
            let ndt = DateTime::from_timestamp(u, 0).unwrap().naive_utc();
            let dt: DateTime<Gz> = tz.from_utc_datetime(&ndt);
            let mut outs: Vec<(String, Result<Vec<DateTime<Gz>>, String>)> = vec![];
            let opt = |r: Option<DateTime<Gz>>| r.into_iter().collect::<Vec<_>>();
            for h in 0..24u32 {
                outs.push((format!("with_hour({})", h), guard(|| opt(dt.with_hour(h)))));
            }
            for x in [0u32, 15, 30, 45, 59] {
                outs.push((format!("with_minute({})", x), guard(|| opt(dt.with_minute(x)))));
                outs.push((format!("with_second({})", x), guard(|| opt(dt.with_second(x)))));
            }
            for x in [1u32, 2, 30, 31] {
                outs.push((format!("with_day({})", x), guard(|| opt(dt.with_day(x)))));
            }
            for x in [1u32, 2, 12] {
                outs.push((format!("with_month({})", x), guard(|| opt(dt.with_month(x)))));
            }
            for x in [1u32, 2, 365, 366] {
                outs.push((format!("with_ordinal({})", x), guard(|| opt(dt.with_ordinal(x)))));
            }
            for y in [crate::refcal::MIN_YEAR - 1, crate::refcal::MIN_YEAR, crate::refcal::MIN_YEAR + 1, crate::refcal::MAX_YEAR - 1, crate::refcal::MAX_YEAR, crate::refcal::MAX_YEAR + 1] {
                outs.push((format!("with_year({})", y), guard(|| opt(dt.with_year(y as i32)))));
            }
            for k in [0u64, 1, 2] {
                outs.push((format!("checked_add_days({})", k), guard(|| opt(dt.checked_add_days(Days::new(k))))));
                outs.push((format!("checked_sub_days({})", k), guard(|| opt(dt.checked_sub_days(Days::new(k))))));
            }
            for k in [0u32, 1, 12] {
                outs.push((format!("checked_add_months({})", k), guard(|| opt(dt.checked_add_months(Months::new(k))))));
                outs.push((format!("checked_sub_months({})", k), guard(|| opt(dt.checked_sub_months(Months::new(k))))));
            }
            for s in (0..24u32).flat_map(|h| [h * 3600, h * 3600 + 900, h * 3600 + 1800, h * 3600 + 2700, h * 3600 + 3599]) {
                outs.push((
                    format!("with_time({} s)", s),
                    guard(|| match dt.with_time(mk_time(s, 0)) {
                        MappedLocalTime::Single(x) => vec![x],
                        MappedLocalTime::Ambiguous(a, b) => vec![a, b],
                        MappedLocalTime::None => vec![],
                    }),
                ));
            }
            for d in [1i64, -1, 900, -900, 3600, -3600, 86_400, -86_400] {
                outs.push((format!("checked_add_signed({} s)", d), guard(|| opt(dt.checked_add_signed(chrono::TimeDelta::seconds(d))))));
            }
            for (name, got) in outs {
                acc.transitions += 1;
                match got {
                    Err(p) => acc.violation("DateTime<zone at the range end>:panic", format!("[instant {} s in the zone {:?}].{}", u, tz, name), "a value or nothing".into(), format!("panic: {}", p)),
                    Ok(v) => {
                        for x in v {
                            let n = x.naive_utc();
                            let in_range = n.date() >= NaiveDate::MIN && n.date() <= NaiveDate::MAX;
                            let reading_ok = in_range && tz.offset_at(n.and_utc().timestamp()) == x.offset().off;
                            if !reading_ok {
                                acc.violation("DateTime<zone at the range end>:invalid-value", format!("[instant {} s in the zone {:?}].{}", u, tz, name), "only values inside the supported range that are readings of the zone".into(), format!("utc {:?} at offset {}", n, x.offset().off));
                            } else {
                                acc.hit(hit_ok);
                            }
                        }
                    }
                }
            }
        }
    }
}

/// Judge the result of an operation that "acts on the wall-clock reading" in the model zone: a returned value must show
/// exactly the new wall clock (seconds, nanosecond) and be one of its readings; a wall clock with exactly one reading
/// must be produced; a skipped one cannot be; a repeated one may be refused or answered with either reading.
/// Returns the number of readings when the answer is acceptable.
pub fn judge_in_zone(acc: &mut Acc, key: &str, call: &dyn Fn() -> String, tz: Gz, got: Result<Option<DateTime<Gz>>, String>, want: Option<(i64, u32)>) -> Option<usize> {
    acc.transitions += 1;
    let got = match got {
        Ok(g) => g,
        Err(p) => {
            acc.violation(&format!("{}:panic", key), call(), "a value or None".into(), format!("panic: {}", p));
            return None;
        }
    };
    let readings = want.map(|(w, _)| tz.resolve(w)).unwrap_or_default();
    let shown = got.as_ref().map(|g| {
        let l = g.naive_utc().and_utc().timestamp() + g.offset().off as i64;
        (l, g.nanosecond(), g.naive_utc().and_utc().timestamp(), g.offset().off)
    });
    let ok = match (&shown, want) {
        (None, None) => true,
        (None, Some(_)) => readings.len() != 1,
        (Some(_), None) => false,
        (Some((lw, ln, gu, go)), Some((w, n))) => *lw == w && *ln == n && readings.contains(&(*gu, *go)),
    };
    if !ok {
        acc.violation(
            key,
            call(),
            match want {
                None => "None (no such date / time)".to_string(),
                Some((w, n)) => format!("wall clock {:?} .{:09}: {}", DateTime::from_timestamp(w, 0).map(|x| x.naive_utc()), n, match readings.len() { 0 => "skipped, so None".to_string(), 1 => format!("its one reading at offset {}", readings[0].1), _ => "repeated: None or either reading".to_string() }),
            },
            format!("{:?}", got.map(|g| (g.naive_utc(), g.offset().off))),
        );
        None
    } else {
        Some(if want.is_some() { readings.len() } else { usize::MAX })
    }
}

/// instants around both transitions of a zone and whole days / months away from them
pub fn zone_starts(tz: Gz) -> Vec<i64> {
    let mut starts: Vec<i64> = vec![];
    for t in [tz.t1, tz.t2] {
        for h in -6i64..=6 {
            for d in [-1i64, 0, 1, 1799, 1800] {
                starts.push(t + h * 1800 + d);
            }
        }
        for days in [-31i64, -30, -7, -1, 1, 7, 28, 30, 31, 217, -217, 365, -365, 182, -182, 184, -184] {
            for d in [-3600i64, -1, 0, 1800, 3600, 5400] {
                starts.push(t + days * 86400 + d);
            }
        }
    }
    starts.sort();
    starts.dedup();
    starts
}
