//! Exploration core shared by all property drivers: accumulators, panic monitor, evidence and
//! replay writers, known-findings matching, exit codes.
//!
//! A driver splits its (finite, fully enumerated) exploration space into *units* (index
//! ranges), explores every unit — in parallel, results merged in unit order so that the report
//! is identical on every run — and hands the merged `Acc` to `finish`.

use rayon::prelude::*;
use serde_json::{json, Value};
use std::cell::RefCell;
use std::collections::BTreeMap;
use std::panic::{catch_unwind, AssertUnwindSafe};
use std::path::PathBuf;
use std::time::Instant;

pub const MAX_VIOL_PER_ACC: usize = 64;
pub const MAX_SAMPLES: usize = 12;

#[derive(Clone, Copy, PartialEq, Eq, Debug)]
pub enum Tier {
    Quick,
    Thorough,
}

#[derive(Clone, Debug)]
pub struct Violation {
    /// Stable identification of the failing call site / input class (matched against
    /// known_findings.json).
    pub key: String,
    /// The call with its arguments, written so that a maintainer can paste it into a test.
    pub call: String,
    pub expected: String,
    pub actual: String,
    /// Unit of the driver in which the case was met (for `--replay`).
    pub unit: u64,
}

/// Per-unit accumulator. Cheap to update in hot loops (plain integers).
#[derive(Clone, Debug, Default)]
pub struct Acc {
    /// impl operations executed and compared with the reference
    pub transitions: u64,
    /// distinct states / values visited
    pub states: u64,
    /// complete traces (cases) explored
    pub traces: u64,
    /// cases that took a named non-default branch
    pub nontrivial: u64,
    /// outcome classes (index into the driver's class-name table)
    pub cls: Vec<u64>,
    pub viol: Vec<Violation>,
    pub viol_total: u64,
    pub samples: Vec<String>,
    pub skipped: BTreeMap<String, u64>,
    pub unit: u64,
}

impl Acc {
    pub fn new(ncls: usize, unit: u64) -> Acc {
        Acc { cls: vec![0; ncls], unit, ..Default::default() }
    }
    #[inline]
    pub fn hit(&mut self, c: usize) {
        self.cls[c] += 1;
    }
    #[inline]
    pub fn hit_nt(&mut self, c: usize) {
        self.cls[c] += 1;
        self.nontrivial += 1;
    }
    pub fn sample(&mut self, s: impl FnOnce() -> String) {
        if self.samples.len() < 3 {
            self.samples.push(s());
        }
    }
    pub fn skip(&mut self, why: &str) {
        *self.skipped.entry(why.to_string()).or_insert(0) += 1;
    }
    #[cold]
    pub fn violation(&mut self, key: &str, call: String, expected: String, actual: String) {
        self.viol_total += 1;
        // keep the first few of each key so that one noisy key cannot hide another
        let same = self.viol.iter().filter(|v| v.key == key).count();
        if self.viol.len() < MAX_VIOL_PER_ACC && same < 4 {
            self.viol.push(Violation { key: key.to_string(), call, expected, actual, unit: self.unit });
        } else if same == 0 && self.viol.len() < MAX_VIOL_PER_ACC * 2 {
            self.viol.push(Violation { key: key.to_string(), call, expected, actual, unit: self.unit });
        }
    }
    /// Same bookkeeping as `violation`, but the descriptions are only built when the record is kept
    /// (for keys that repeat millions of times, e.g. a listed known finding inside a sweep).
    pub fn violation_lazy(&mut self, key: &str, f: impl FnOnce() -> (String, String, String)) {
        self.viol_total += 1;
        let same = self.viol.iter().filter(|v| v.key == key).count();
        if (self.viol.len() < MAX_VIOL_PER_ACC && same < 4) || (same == 0 && self.viol.len() < MAX_VIOL_PER_ACC * 2) {
            let (call, expected, actual) = f();
            self.viol.push(Violation { key: key.to_string(), call, expected, actual, unit: self.unit });
        }
    }
    pub fn merge(&mut self, o: Acc) {
        self.transitions += o.transitions;
        self.states += o.states;
        self.traces += o.traces;
        self.nontrivial += o.nontrivial;
        if self.cls.len() < o.cls.len() {
            self.cls.resize(o.cls.len(), 0);
        }
        for (i, c) in o.cls.iter().enumerate() {
            self.cls[i] += c;
        }
        self.viol_total += o.viol_total;
        for v in o.viol {
            let same = self.viol.iter().filter(|x| x.key == v.key).count();
            if same < 4 && self.viol.len() < MAX_VIOL_PER_ACC * 4 {
                self.viol.push(v);
            }
        }
        for s in o.samples {
            if self.samples.len() < MAX_SAMPLES {
                self.samples.push(s);
            }
        }
        for (k, n) in o.skipped {
            *self.skipped.entry(k).or_insert(0) += n;
        }
    }
}

/// Compare and record. Returns true when equal.
#[macro_export]
macro_rules! check_eq {
    ($acc:expr, $key:expr, $actual:expr, $expected:expr, $call:expr) => {{
        $acc.transitions += 1;
        let a = $actual;
        let e = $expected;
        if a != e {
            $acc.violation($key, $call, format!("{:?}", e), format!("{:?}", a));
            false
        } else {
            true
        }
    }};
}

// ------------------------------------------------------------------------------------------
// panic monitor

thread_local! {
    static LAST_PANIC: RefCell<(bool, String)> = RefCell::new((false, String::new()));
}

pub fn install_panic_hook() {
    // many short-lived strings on 16 threads: keep glibc from trimming / re-mapping its arenas all the time
    unsafe {
        libc::mallopt(libc::M_TRIM_THRESHOLD, 1 << 30);
        libc::mallopt(libc::M_MMAP_THRESHOLD, 1 << 30);
        libc::mallopt(libc::M_TOP_PAD, 1 << 20);
    }
    std::panic::set_hook(Box::new(|info| {
        // no reallocation here: the buffer is per thread and keeps its capacity (expected panics are frequent in some drivers)
        use std::fmt::Write as _;
        LAST_PANIC.with(|p| {
            let mut b = p.borrow_mut();
            let (set, buf) = &mut *b;
            buf.clear();
            if buf.capacity() < 512 {
                buf.reserve(512);
            }
            if let Some(s) = info.payload().downcast_ref::<&str>() {
                buf.push_str(s);
            } else if let Some(s) = info.payload().downcast_ref::<String>() {
                buf.push_str(s);
            } else {
                buf.push_str("<non-string panic>");
            }
            if let Some(l) = info.location() {
                let _ = write!(buf, " at {}:{}", l.file(), l.line());
            }
            *set = true;
        });
    }));
}

/// Run an impl call under the panic monitor.
#[inline]
pub fn guard<T>(f: impl FnOnce() -> T) -> Result<T, String> {
    match catch_unwind(AssertUnwindSafe(f)) {
        Ok(v) => Ok(v),
        Err(_) => Err(LAST_PANIC.with(|p| {
            let mut b = p.borrow_mut();
            if b.0 {
                b.0 = false;
                let mut s = String::with_capacity(b.1.len());
                s.push_str(&b.1);
                s
            } else {
                "panic".into()
            }
        })),
    }
}

// ------------------------------------------------------------------------------------------
// driver plumbing

pub struct Args {
    pub tier: Tier,
    pub replay: Option<PathBuf>,
    pub seed: i64,
    pub worker: Option<String>,
    pub extra: Vec<String>,
}

pub fn parse_args() -> Args {
    let mut tier = match std::env::var("VERIF_TIER").ok().as_deref() {
        Some("thorough") => Tier::Thorough,
        _ => Tier::Quick,
    };
    let seed = std::env::var("VERIF_SEED").ok().and_then(|s| s.parse().ok()).unwrap_or(0);
    let mut replay = None;
    let mut worker = None;
    let mut extra = vec![];
    let mut it = std::env::args().skip(1);
    while let Some(a) = it.next() {
        match a.as_str() {
            "--tier" => {
                tier = match it.next().as_deref() {
                    Some("thorough") => Tier::Thorough,
                    Some("quick") => Tier::Quick,
                    other => machinery(&format!("bad tier {:?}", other)),
                }
            }
            "--replay" => replay = it.next().map(PathBuf::from),
            "--worker" => worker = it.next(),
            _ => extra.push(a),
        }
    }
    // a replay runs at the tier the violation was found at
    if let Some(p) = &replay {
        if let Ok(txt) = std::fs::read_to_string(p) {
            if let Ok(v) = serde_json::from_str::<Value>(&txt) {
                match v["tier"].as_str() {
                    Some("thorough") => tier = Tier::Thorough,
                    Some("quick") => tier = Tier::Quick,
                    _ => {}
                }
            }
        }
    }
    Args { tier, replay, seed, worker, extra }
}

pub fn machinery(msg: &str) -> ! {
    eprintln!("MACHINERY-ERROR: {}", msg);
    std::process::exit(2)
}

pub fn verif_dir() -> PathBuf {
    std::env::var("VERIF_DIR").map(PathBuf::from).unwrap_or_else(|_| PathBuf::from("/verif"))
}

/// Explore `nunits` units in parallel; merge in unit order (deterministic report).
pub fn explore_units<F>(nunits: u64, ncls: usize, only_unit: Option<u64>, f: F) -> Acc
where
    F: Fn(u64, &mut Acc) + Sync + Send,
{
    let run_one = |u: u64| {
        let mut acc = Acc::new(ncls, u);
        if let Err(p) = guard(|| f(u, &mut acc)) {
            acc.violation("harness:unexpected-panic", format!("unit {}", u), "no panic".into(), p);
        }
        acc
    };
    if let Some(u) = only_unit {
        return run_one(u);
    }
    let accs: Vec<Acc> = (0..nunits).into_par_iter().map(run_one).collect();
    let mut total = Acc::new(ncls, 0);
    for a in accs {
        total.merge(a);
    }
    total
}

pub struct Spec {
    pub property: &'static str,
    pub classes: &'static [&'static str],
    /// classes that must be observed at least once, else the run is vacuous (exit 2)
    pub required: &'static [&'static str],
    pub rule: &'static str,
    pub assumptions: &'static [&'static str],
}

#[derive(Debug, Clone)]
struct Known {
    property: String,
    key: String,
    what: String,
    status: String,
}

fn load_known() -> Vec<Known> {
    let p = verif_dir().join("known_findings.json");
    let Ok(txt) = std::fs::read_to_string(&p) else { return vec![] };
    let v: Value = match serde_json::from_str(&txt) {
        Ok(v) => v,
        Err(e) => machinery(&format!("known_findings.json unreadable: {}", e)),
    };
    v["findings"]
        .as_array()
        .map(|a| {
            a.iter()
                .map(|e| Known {
                    property: e["property"].as_str().unwrap_or("").into(),
                    key: e["key"].as_str().unwrap_or("").into(),
                    what: e["what"].as_str().unwrap_or("").into(),
                    status: e["status"].as_str().unwrap_or("").into(),
                })
                .collect()
        })
        .unwrap_or_default()
}

pub struct Extra {
    pub bounds: Value,
    pub exhaustive: bool,
    pub more: Vec<(String, Value)>,
}

impl Default for Extra {
    fn default() -> Self {
        Extra { bounds: json!({}), exhaustive: false, more: vec![] }
    }
}

/// Replay mode: the replay file names the unit; re-run it alone and print what it finds.
pub fn replay_unit(args: &Args) -> Option<u64> {
    let p = args.replay.as_ref()?;
    let txt = std::fs::read_to_string(p).unwrap_or_else(|e| machinery(&format!("replay file: {}", e)));
    let v: Value = serde_json::from_str(&txt).unwrap_or_else(|e| machinery(&format!("replay file: {}", e)));
    Some(v["unit"].as_u64().unwrap_or_else(|| machinery("replay file has no unit")))
}

/// Write evidence, print verdict lines, exit.
pub fn finish(spec: &Spec, args: &Args, start: Instant, acc: Acc, extra: Extra) -> ! {
    let known = load_known();
    let mut new_viol: Vec<&Violation> = vec![];
    let mut known_hit: BTreeMap<String, (String, u64)> = BTreeMap::new();
    for v in &acc.viol {
        if let Some(k) = known.iter().find(|k| k.status == "known" && k.property == spec.property && k.key == v.key) {
            known_hit.entry(k.key.clone()).or_insert((k.what.clone(), 0)).1 += 1;
        } else {
            new_viol.push(v);
        }
    }

    // replay mode: print and exit without touching evidence
    if args.replay.is_some() {
        for v in &acc.viol {
            println!("REPLAY {} key={}\n  call:     {}\n  expected: {}\n  actual:   {}", spec.property, v.key, v.call, v.expected, v.actual);
        }
        if acc.viol.is_empty() {
            println!("REPLAY {}: unit re-executed, no violation", spec.property);
            std::process::exit(0);
        }
        std::process::exit(1);
    }

    let hist: BTreeMap<&str, u64> = spec.classes.iter().cloned().zip(acc.cls.iter().cloned()).collect();
    let missing: Vec<&str> = spec.required.iter().cloned().filter(|r| hist.get(r).copied().unwrap_or(0) == 0).collect();

    let replay_dir = verif_dir().join("replays");
    let _ = std::fs::create_dir_all(&replay_dir);
    let mut replay_paths = vec![];
    for (i, v) in new_viol.iter().enumerate().take(16) {
        let path = replay_dir.join(format!("{}-{}.json", spec.property, i));
        let body = json!({"property": spec.property, "key": v.key, "unit": v.unit, "call": v.call,
            "expected": v.expected, "actual": v.actual, "tier": format!("{:?}", args.tier).to_lowercase()});
        let _ = std::fs::write(&path, serde_json::to_string_pretty(&body).unwrap());
        replay_paths.push(path);
    }

    let wall = start.elapsed().as_secs_f64();
    let mut coverage = json!({
        "states": acc.states.max(1),
        "transitions": acc.transitions.max(1),
        "traces_validated_against_impl": acc.traces,
        "evaluations": acc.transitions.max(1),
        "distinct_nontrivial": acc.nontrivial,
        "rule": spec.rule,
        "samples": acc.samples,
        "exhaustive": extra.exhaustive,
        "bounds": extra.bounds,
        "outcome_histogram": hist,
        "skipped": acc.skipped,
        "known_findings_hit": known_hit.iter().map(|(k, (_, n))| json!({"key": k, "count": n})).collect::<Vec<_>>(),
        "required_classes_missing": missing,
    });
    for (k, v) in extra.more {
        coverage[k] = v;
    }
    let ev = json!({
        "property_id": spec.property,
        "tier": if args.tier == Tier::Quick { "quick" } else { "thorough" },
        "seed": args.seed,
        "level": "model_checking",
        "coverage": coverage,
        "assumptions": spec.assumptions,
        "wall_s": wall,
        "violations": new_viol.len(),
    });
    let evdir = verif_dir().join("evidence");
    let _ = std::fs::create_dir_all(&evdir);
    let evpath = evdir.join(format!("{}.json", spec.property));
    if let Err(e) = std::fs::write(&evpath, serde_json::to_string_pretty(&ev).unwrap()) {
        machinery(&format!("cannot write evidence: {}", e));
    }

    for (_, (what, n)) in &known_hit {
        println!("KNOWN-FINDING: property={} {} ({} cases this run)", spec.property, what, n);
    }
    println!(
        "{} tier={:?} states={} transitions={} traces={} nontrivial={} violations={} (total incl. repeats {}) wall={:.1}s",
        spec.property, args.tier, acc.states, acc.transitions, acc.traces, acc.nontrivial, new_viol.len(), acc.viol_total, wall
    );
    if !new_viol.is_empty() {
        for (i, v) in new_viol.iter().enumerate().take(16) {
            println!("VIOLATION property={} replay={}", spec.property, replay_paths[i].display());
            println!("  key={} call: {}\n  expected: {}\n  actual:   {}", v.key, v.call, v.expected, v.actual);
        }
        std::process::exit(1);
    }
    if !missing.is_empty() {
        machinery(&format!("vacuous run: outcome classes never observed: {:?}", missing));
    }
    std::process::exit(0)
}


// ------------------------------------------------------------------------------------------
// call histories

/// An order over an alphabet of `n` calls in which every ordered pair (a, b), including (a, a), occurs as two
/// consecutive calls: the complete set of histories of length two, concatenated (2·n² calls). Used by the drivers'
/// single-thread "history" units: a result must not depend on which call came before (hidden caches, lazily built
/// tables, scratch buffers that are not reset).
pub fn pair_order(n: usize) -> Vec<usize> {
    let mut v = Vec::with_capacity(2 * n * n);
    for a in 0..n {
        for b in 0..n {
            v.push(a);
            v.push(b);
        }
    }
    v
}
