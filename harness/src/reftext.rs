//! Reference readers written from the grammars in the property statements (not from chrono's scanners).
use crate::refcal::*;

/// A wall-clock reading plus offset: (year, month, day, hour, minute, second 0..=59, nanosecond field incl. leap, offset seconds)
#[derive(Clone, Copy, Debug, PartialEq, Eq)]
pub struct Stamp {
    pub y: i64,
    pub mo: u32,
    pub d: u32,
    pub h: u32,
    pub mi: u32,
    pub s: u32,
    pub frac: u32,
    pub off: i32,
}

impl Stamp {
    /// (day number, second of day, nanosecond field) of the UTC reading
    pub fn utc(&self) -> (i64, u32, u32) {
        let z = days_from_civil(self.y, self.mo, self.d);
        let t = (self.h * 3600 + self.mi * 60 + self.s) as i64 - self.off as i64;
        (z + t.div_euclid(86400), t.rem_euclid(86400) as u32, self.frac)
    }
}

fn two(b: &[u8], i: usize) -> Option<u32> {
    if i + 2 <= b.len() && b[i].is_ascii_digit() && b[i + 1].is_ascii_digit() {
        Some(((b[i] - b'0') * 10 + (b[i + 1] - b'0')) as u32)
    } else {
        None
    }
}

/// RFC 3339 date-time with the documented latitude (T/t/space, Z/z, any number of fraction digits, U+2212).
pub fn rfc3339(s: &str) -> Option<Stamp> {
    let b = s.as_bytes();
    if b.len() < 20 {
        return None;
    }
    if !(b[0].is_ascii_digit() && b[1].is_ascii_digit()) {
        return None;
    }
    let y = (two(b, 0)? * 100 + two(b, 2)?) as i64;
    if b[4] != b'-' || b[7] != b'-' {
        return None;
    }
    let mo = two(b, 5)?;
    let d = two(b, 8)?;
    if !(b[10] == b'T' || b[10] == b't' || b[10] == b' ') {
        return None;
    }
    let h = two(b, 11)?;
    if b[13] != b':' || b[16] != b':' {
        return None;
    }
    let mi = two(b, 14)?;
    let sec = two(b, 17)?;
    let mut i = 19;
    let mut frac: u64 = 0;
    if i < b.len() && b[i] == b'.' {
        i += 1;
        let st = i;
        while i < b.len() && b[i].is_ascii_digit() {
            if i - st < 9 {
                frac = frac * 10 + (b[i] - b'0') as u64;
            }
            i += 1;
        }
        let n = i - st;
        if n == 0 {
            return None;
        }
        for _ in n..9 {
            frac *= 10;
        }
    }
    // offset
    if i >= b.len() {
        return None;
    }
    let off: i32;
    if b[i] == b'Z' || b[i] == b'z' {
        off = 0;
        i += 1;
    } else {
        let neg;
        if b[i] == b'+' {
            neg = false;
            i += 1;
        } else if b[i] == b'-' {
            neg = true;
            i += 1;
        } else if s[i..].starts_with('\u{2212}') {
            neg = true;
            i += 3;
        } else {
            return None;
        }
        let oh = two(b, i)?;
        if i + 2 >= b.len() || b[i + 2] != b':' {
            return None;
        }
        let om = two(b, i + 3)?;
        i += 5;
        if oh > 23 || om > 59 {
            return None;
        }
        let o = (oh * 3600 + om * 60) as i32;
        off = if neg { -o } else { o };
    }
    if i != b.len() {
        return None;
    }
    if mo < 1 || mo > 12 || d < 1 || d > days_in_month(y, mo) || h > 23 || mi > 59 || sec > 60 {
        return None;
    }
    let (s2, fr) = if sec == 60 { (59, frac as u32 + 1_000_000_000) } else { (sec, frac as u32) };
    Some(Stamp { y, mo, d, h, mi, s: s2, frac: fr, off })
}
