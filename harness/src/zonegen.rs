//! Bounded zone-model enumeration shared by C05 and C16.
use crate::core::Tier;
use crate::refcal::*;
use crate::reftz::*;

pub fn ty(off: i32, dst: bool) -> RefType {
    RefType { off, dst, abbr: if dst { "DST".into() } else { "STD".into() } }
}

/// bounded zone models: k transitions, types from a palette, spacings from a set
pub fn synthetic_zones(code: u64, tier: Tier) -> Option<(RefZone, u8, V1Block, bool)> {
    // code enumerates: k (0..=3) | type palette indices (k+1 of them) | spacing indices (k-1) | footer variant | version/layout
    let palette: Vec<RefType> = {
        let mut p = vec![];
        for off in [-7200, -3600, 0, 1800, 3600, 7200] {
            p.push(ty(off, false));
            p.push(ty(off, true));
        }
        p.push(RefType { off: 3600, dst: false, abbr: "ALT".into() });
        p
    };
    let spacings: [i64; 6] = [1, 3599, 3600, 7200, 86400, 30 * 86400];
    let np = palette.len() as u64; // 13
    let mut c = code;
    let mut take = |n: u64| {
        let r = c % n;
        c /= n;
        r
    };
    let k = take(4) as usize;
    let layout = take(6); // v1 | v2 fat | v2 slim | v3 fat | v3 slim+indicators | v2 fat+indicators
    let footer = take(3); // none | fixed = last type | alternate rule (when consistent)
    let mut types_idx = vec![];
    for _ in 0..=k {
        types_idx.push(take(np) as usize);
    }
    let mut gaps = vec![];
    for _ in 1..k.max(1) {
        gaps.push(spacings[take(6) as usize]);
    }
    if c != 0 {
        return None; // beyond the enumeration
    }
    if tier == Tier::Quick && k == 3 && (types_idx[3] % 3 != 0 || gaps.iter().any(|g| *g == 7200)) {
        return None; // quick tier thins the largest class
    }
    let t0 = days_from_civil(2000, 1, 15) * 86400;
    let mut trans = vec![];
    let mut types: Vec<RefType> = vec![];
    let mut idx_of = |t: &RefType, types: &mut Vec<RefType>| -> usize {
        if let Some(i) = types.iter().position(|x| x == t) {
            i
        } else {
            types.push(t.clone());
            types.len() - 1
        }
    };
    let first = palette[types_idx[0]].clone();
    idx_of(&first, &mut types);
    let mut t = t0;
    for i in 1..=k {
        if i > 1 {
            t += gaps[i - 2];
        }
        let ti = idx_of(&palette[types_idx[i]], &mut types);
        trans.push((t, ti));
    }
    let last_ty = trans.last().map(|x| types[x.1].clone()).unwrap_or(first.clone());
    let (version, v1, ind) = match layout {
        0 => (1u8, V1Block::Fat, false),
        1 => (2, V1Block::Fat, false),
        2 => (2, V1Block::Slim, false),
        3 => (3, V1Block::Fat, false),
        4 => (3, V1Block::Slim, true),
        _ => (2, V1Block::Fat, true),
    };
    let rule = match footer {
        0 => None,
        1 => {
            if version == 1 || !last_ty.abbr.bytes().all(|c| c.is_ascii_alphabetic()) {
                return None;
            }
            Some(RefRule { std: RefType { off: last_ty.off, dst: false, abbr: last_ty.abbr.clone() }, dst: None })
        }
        _ => {
            if version == 1 {
                return None;
            }
            // northern rule: standard time in January; southern rule: DST in January
            let north = RefRule { std: ty(0, false), dst: Some(RefDst { ty: ty(3600, true), start: RuleDay::M { m: 3, w: 2, d: 0 }, start_time: 7200, end: RuleDay::M { m: 11, w: 1, d: 0 }, end_time: 7200 }) };
            let south = RefRule { std: ty(-3600, false), dst: Some(RefDst { ty: ty(0, true), start: RuleDay::M { m: 10, w: 1, d: 0 }, start_time: 7200, end: RuleDay::M { m: 3, w: 3, d: 0 }, end_time: 10800 }) };
            // the footer must agree with the last transition's type at that instant
            let at = trans.last().map(|x| x.0).unwrap_or(t0);
            let in_effect = |r: &RefRule| {
                let d = r.dst.as_ref().unwrap();
                if r.offset_at(at) == d.ty.off { d.ty.clone() } else { r.std.clone() }
            };
            if in_effect(&north) == last_ty {
                Some(north)
            } else if in_effect(&south) == last_ty {
                Some(south)
            } else {
                return None;
            }
        }
    };
    if footer == 1 && last_ty.dst {
        return None; // a fixed rule is standard time
    }
    Some((RefZone { trans, types, rule }, version, v1, ind))
}

pub fn synthetic_space() -> u64 {
    4 * 6 * 3 * 13u64.pow(4) * 36
}

/// Footer family: zones without transitions whose footer rule carries every kind of rule time — whole hours, minutes
/// and seconds parts, both signs and the range ends of the extended (version 3) form, and the plain 0..=24 h form for
/// version 2 — once as the start time, once as the end time and once as both, for a northern and a southern rule.
pub fn footer_zones() -> Vec<(RefZone, u8, V1Block, bool)> {
    const EXT: [i32; 22] = [-604799, -601200, -90000, -86400, -5400, -3661, -3600, -1800, -61, -1, 0, 1, 61, 1800, 5400, 86399, 86400, 86401, 89999, 90000, 601200, 604799];
    let mut out = vec![];
    for &(version, v1, ind) in &[(3u8, V1Block::Slim, false), (3, V1Block::Fat, true), (2, V1Block::Fat, false)] {
        for south in [false, true] {
            for &t in &EXT {
                if version == 2 && !(0..=89999).contains(&t) {
                    continue;
                }
                for (st, et) in [(t, 7200), (7200, t), (t, t)] {
                    let (std, dst, start, end) = if south {
                        (RefType { off: 34200, dst: false, abbr: "STD".into() }, RefType { off: 37800, dst: true, abbr: "DST".into() }, RuleDay::M { m: 10, w: 1, d: 0 }, RuleDay::M { m: 3, w: 3, d: 0 })
                    } else {
                        (RefType { off: -12600, dst: false, abbr: "STD".into() }, RefType { off: -9000, dst: true, abbr: "DST".into() }, RuleDay::M { m: 3, w: 5, d: 0 }, RuleDay::J1(290))
                    };
                    let rule = RefRule { std: std.clone(), dst: Some(RefDst { ty: dst, start, start_time: st, end, end_time: et }) };
                    out.push((RefZone { trans: vec![], types: vec![std], rule: Some(rule) }, version, v1, ind));
                }
            }
        }
    }
    out
}

/// Many-transition family: a table of n daily transitions cycling through +01:00, +02:00, +03:00 (two skipped hours,
/// then two repeated hours; period 3, so that an index wrapped at 2^8 or 2^16 lands on a different type), for the counts
/// at which an index or a count kept in a narrow integer would wrap. No footer.
pub const MANY_COUNTS: [usize; 10] = [255, 256, 257, 300, 1000, 65_535, 65_536, 65_537, 65_540, 70_000];
pub const MANY_OFFS: [i32; 3] = [3600, 7200, 10800];
pub fn many_transition_zone(n: usize) -> (RefZone, u8, V1Block, bool) {
    let t0 = days_from_civil(2000, 1, 15) * 86400;
    let types = vec![RefType { off: 3600, dst: false, abbr: "STD".into() }, RefType { off: 7200, dst: true, abbr: "DST".into() }, RefType { off: 10800, dst: true, abbr: "DDT".into() }];
    let trans: Vec<(i64, usize)> = (0..n).map(|i| (t0 + i as i64 * 86400, (i + 1) % 3)).collect();
    (RefZone { trans, types, rule: None }, if n % 2 == 0 { 2 } else { 3 }, V1Block::Slim, n % 3 == 0)
}
