use chrono::offset::verif::VerifZone;
fn main() {
    for tz in ["EST5EDT,M3.2.0,M11.1.0", "<+0530>-5:30", "AAA-1BBB-0:00,J60/0,300/24:00:01"] {
        println!("{:?}", VerifZone::from_tz(Some(tz)).map(|z| z.debug()));
    }
    let b = std::fs::read("/usr/share/zoneinfo/Asia/Kolkata").unwrap();
    println!("{}", VerifZone::from_tzif(&b).unwrap().debug());
}
